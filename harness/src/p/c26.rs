//! C26 — vector and temporal builtins: the real `inputlayer::vector_ops` / `temporal_ops` functions.
//!
//! Requests (all floats as bit patterns, any NaN *result* printed as `nan`):
//!   c26.dist <v:a> <v:b>          distances (ab,ba,aa) for the 5 float metrics, checked variants, norm, normalize
//!   c26.int8 <v8:a> <v8:b>        int8 distances (ab,ba,aa), dequantized distances, dequantize
//!   c26.quant <v:a>               linear / symmetric quantisation, dequantize_with_scale(sym, max_abs/127)
//!   c26.probes <bucket> <n> <m>   lsh_probes
//!   c26.ranked <bucket> <m> <d:…> lsh_probes_ranked
//!   c26.ham <a> <b>               hamming_distance, abs_i64 a, abs_i64 b
//!   c26.cache | op ; op ; …       sequential history over the global hyperplane cache (starts cleared, size 64)
//!   c26.storm <T> | tid op ; …    the same ops issued from T threads concurrently; per-item results
//!   c26.time <a> <b> <c> <d>      temporal_ops on a quadruple
//!   c26.time3 s1 e1 s2 e2 s3 e3   interval_contains on three intervals
//!   c26.law <x> <y>               primitive f32/f64 operations (ties the driver's native floats to Rust's)
use crate::common::*;
use crate::u::vecwire::*;
use inputlayer::temporal_ops as t;
use inputlayer::vector_ops as vo;

// ------------------------------------------------------------------------------------------------
// generators

const F32_POOL: &[u32] = &[
    0x0000_0000, 0x8000_0000, 0x3f80_0000, 0xbf80_0000, 0x3f00_0000, 0x4000_0000, 0x4040_0000, 0xc040_0000,
    0x3a83_126f, // 1e-3
    0x5f00_0000, // 2^63
    0x5e80_0000, // 2^62
    0x5d80_0000, // 2^60
    0x5d00_0000, // 2^59
    0x7f7f_ffff, 0xff7f_ffff, // ±f32::MAX
    0x7149_f2ca, // 1e30
    0x0000_0001, 0x8000_0001, 0x0001_b4e8, 0x007f_ffff, // denormals
    0x0080_0000, // MIN_POSITIVE
    0x0200_0000, 0x0300_0000, 0x0380_0000, // around 2^-120
    0x1e3c_e508, // 1e-20
    0x2edb_e6ff, // 1e-10
    0x3380_0000, // 2^-24
    0x4b80_0000, // 2^24
    0x4b80_0001,
];
const F32_NONFINITE: &[u32] = &[0x7f80_0000, 0xff80_0000, 0x7fc0_0000, 0xffc0_0000, 0x7f80_0001];

fn rand_f32(ctx: &mut Ctx, kind: usize) -> f32 {
    match kind {
        0 => ctx.range(-3, 3) as f32,
        1 => (ctx.range(-1000, 1000) as f32) / 1000.0,
        2 => f32::from_bits(F32_POOL[ctx.below(F32_POOL.len())]),
        3 => { // any finite bit pattern
            loop { let f = f32::from_bits(ctx.next() as u32); if f.is_finite() { return f; } }
        }
        4 => { // huge
            let e = 0x5d00_0000u32 + ((ctx.below(0x2280) as u32) << 16); let s = if ctx.chance(1, 2) { 0x8000_0000 } else { 0 };
            let f = f32::from_bits(s | e | (ctx.next() as u32 & 0xffff)); if f.is_finite() { f } else { f32::MAX }
        }
        5 => { // denormal / tiny
            let s = if ctx.chance(1, 2) { 0x8000_0000 } else { 0 };
            f32::from_bits(s | (ctx.next() as u32 & 0x03ff_ffff))
        }
        6 => { if ctx.chance(1, 4) { f32::from_bits(F32_NONFINITE[ctx.below(F32_NONFINITE.len())]) } else { ctx.range(-2, 2) as f32 } }
        _ => f32::from_bits(ctx.next() as u32),
    }
}
fn rand_vec(ctx: &mut Ctx, dim: usize, kind: usize) -> Vec<f32> { (0..dim).map(|_| rand_f32(ctx, kind)).collect() }
const KIND_NAMES: &[&str] = &["smallint", "unit", "pool", "anyfinite", "huge", "tiny", "nonfinite", "anybits"];

fn gen_dist(ctx: &mut Ctx, out: &mut Vec<String>) {
    let n = ctx.budget(6000, 60000);
    for _ in 0..n {
        let kind = ctx.below(8);
        let big = ctx.chance(1, 10); let dim = if ctx.chance(1, 12) { 0 } else { 1 + ctx.below(if big { 16 } else { 6 }) };
        let a = rand_vec(ctx, dim, kind);
        let shape = ctx.below(10);
        let b = match shape {
            0 => a.clone(),
            1 => a.iter().map(|x| -x).collect(),
            2 => { let d2 = ctx.below(7); ctx.count("dist_len_mismatch"); rand_vec(ctx, d2, kind) }
            3 => vec![0.0; dim],
            4 => { let mut b = a.clone(); if dim > 0 { let i = ctx.below(dim); b[i] = rand_f32(ctx, kind); } b }
            5 => { let k2 = ctx.below(8); rand_vec(ctx, dim, k2) }
            _ => rand_vec(ctx, dim, kind),
        };
        ctx.count(&format!("dist_kind_{}", KIND_NAMES[kind]));
        out.push(format!("c26.dist {} {}", vec_to_wire(&a), vec_to_wire(&b)));
    }
}

fn gen_int8(ctx: &mut Ctx, out: &mut Vec<String>) {
    let n = ctx.budget(1500, 15000);
    for _ in 0..n {
        let dim = if ctx.chance(1, 12) { 0 } else { 1 + ctx.below(8) };
        let mk = |ctx: &mut Ctx, d: usize| -> Vec<i8> { (0..d).map(|_| match ctx.below(6) { 0 => -128, 1 => 127, 2 => 0, _ => ctx.range(-128, 127) as i8 }).collect() };
        let a = if ctx.chance(1, 10) { vec![0i8; dim] } else { mk(ctx, dim) };
        let b = match ctx.below(6) { 0 => a.clone(), 1 => vec![0i8; dim], 2 => { let d = ctx.below(6); mk(ctx, d) }, _ => mk(ctx, dim) };
        ctx.count("int8_pairs");
        out.push(format!("c26.int8 {} {}", v8_to_wire(&a), v8_to_wire(&b)));
    }
}

fn gen_quant(ctx: &mut Ctx, out: &mut Vec<String>) {
    let n = ctx.budget(3000, 30000);
    for _ in 0..n {
        let kind = ctx.below(8);
        let dim = if ctx.chance(1, 15) { 0 } else { 1 + ctx.below(8) };
        let mut a = rand_vec(ctx, dim, kind);
        if ctx.chance(1, 10) && dim > 0 { let x = a[0]; for y in a.iter_mut() { *y = x; } } // constant vector (range 0)
        ctx.count(&format!("quant_kind_{}", KIND_NAMES[kind]));
        out.push(format!("c26.quant {}", vec_to_wire(&a)));
    }
}

fn rand_bucket(ctx: &mut Ctx) -> i64 {
    match ctx.below(6) { 0 => 0, 1 => -1, 2 => i64::MIN, 3 => i64::MAX, 4 => ctx.range(0, 255), _ => ctx.next() as i64 }
}

fn gen_probes(ctx: &mut Ctx, out: &mut Vec<String>) {
    // all n in 0..=70 against a few m each (incl. 0, 1, exact layer boundaries, beyond the total)
    for n in 0..=70usize {
        let nn = n.min(62);
        let c1 = nn; let c2 = nn * nn.saturating_sub(1) / 2; let c3 = nn * nn.saturating_sub(1) * nn.saturating_sub(2) / 6;
        let mut ms = vec![0, 1, 2, 1 + c1, 2 + c1, 1 + c1 + c2, 2 + c1 + c2, ctx.below(1 + c1 + c2 + 2)];
        if n <= 12 || ctx.thorough { ms.push(1 + c1 + c2 + c3); ms.push(1 + c1 + c2 + c3 + 7); ms.push(c1 + c2 + c3); }
        for m in ms {
            let b = rand_bucket(ctx);
            ctx.count("probes");
            out.push(format!("c26.probes {} {} {}", b, n, m));
        }
    }
    let extra = ctx.budget(300, 3000);
    for _ in 0..extra {
        let n = if ctx.chance(1, 20) { ctx.below(1 << 20) + 70 } else { ctx.below(71) };
        let m = ctx.below(if n <= 16 { 900 } else { 2100 });
        ctx.count("probes");
        out.push(format!("c26.probes {} {} {}", rand_bucket(ctx), n, m));
    }
    // ranked
    let nr = ctx.budget(1500, 15000);
    for _ in 0..nr {
        let len = match ctx.below(10) { 0 => 0, 1 => 62 + ctx.below(9), 2 => 20 + ctx.below(42), _ => 1 + ctx.below(12) };
        let kind = ctx.below(6);
        let d: Vec<f64> = (0..len).map(|_| match kind {
            0 => ctx.range(0, 3) as f64,                                // many ties
            1 => (ctx.next() % 1000) as f64 / 7.0,
            2 => f64::from_bits(ctx.next() & 0x7fff_ffff_ffff_ffff),   // any non-negative pattern incl NaN/inf
            3 => if ctx.chance(1, 5) { f64::NAN } else { ctx.range(0, 5) as f64 },
            4 => if ctx.chance(1, 3) { f64::INFINITY } else if ctx.chance(1, 3) { 0.0 } else { -(ctx.range(0, 4) as f64) },
            _ => (ctx.next() % 100000) as f64 * 1e-3,
        }).collect();
        if d.iter().any(|x| x.is_nan()) { ctx.count("ranked_with_nan"); }
        let nn = len.min(62);
        let total = 1 + nn + nn * nn.saturating_sub(1) / 2;
        let m = match ctx.below(5) { 0 => 0, 1 => 1, 2 => 1 + nn, 3 => total + ctx.below(40), _ => ctx.below(total + 3) };
        ctx.count("ranked");
        out.push(format!("c26.ranked {} {} {}", rand_bucket(ctx), m, f64s_to_wire(&d)));
    }
    let nh = ctx.budget(500, 5000);
    for _ in 0..nh {
        let a = rand_bucket(ctx);
        let b = match ctx.below(4) { 0 => a, 1 => !a, 2 => a ^ (1i64 << ctx.below(64)), _ => rand_bucket(ctx) };
        out.push(format!("c26.ham {} {}", a, b));
    }
}

fn rand_cache_op(ctx: &mut Ctx, keys: &[(i64, usize, usize)], allow_admin: bool) -> String {
    let (tb, n, d) = keys[ctx.below(keys.len())];
    let r = ctx.below(if allow_admin { 20 } else { 14 });
    let vk = *ctx.pick(&[0usize, 1, 1, 2, 3, 6]);
    match r {
        0..=7 => format!("b {} {} {}", tb, n, vec_to_wire(&rand_vec(ctx, d, vk))),
        8 => { let v: Vec<i8> = (0..d).map(|_| ctx.range(-128, 127) as i8).collect(); format!("b8 {} {} {}", tb, n, v8_to_wire(&v)) }
        9 => format!("bd {} {} {}", tb, n, vec_to_wire(&rand_vec(ctx, d, vk))),
        // finite vectors only: with infinities the boundary distances can be NaN (see c26.ranked)
        10 => { let k = if vk == 6 { 1 } else { vk }; format!("mp {} {} {} {}", tb, n, ctx.below(12), vec_to_wire(&rand_vec(ctx, d, k))) }
        11 => format!("pw {} {} {}", tb, n, d),
        12 => format!("bs {} {} {}", 1 + ctx.below(4), n, vec_to_wire(&rand_vec(ctx, d, vk))),
        13 => "st".to_string(),
        14 | 15 => "st".to_string(),
        16 => "cl".to_string(),
        17 | 18 => format!("rs {}", ctx.below(5)),
        _ => format!("rs {}", ctx.below(70)),
    }
}

fn gen_cache(ctx: &mut Ctx, out: &mut Vec<String>) {
    // every (table, n) in 0..=3 x 0..=70: bucket of one vector under a cold and a warm cache, and after eviction
    let v = [1.0f32, -0.5, 0.25, -2.0];
    for tb in 0..=3i64 { for n in 0..=70usize {
        let w = vec_to_wire(&v);
        out.push(format!("c26.cache | rs 1 ; b {tb} {n} {w} ; b {tb} {n} {w} ; b {} {n} {w} ; b {tb} {n} {w} ; st ; pw {tb} {n} 4 ; b {tb} {n} {w} ; st", tb + 1));
        ctx.count("cache_table_x_n");
    } }
    let n = ctx.budget(500, 5000);
    for _ in 0..n {
        // few keys so that hits, misses and evictions all happen
        let nk = 1 + ctx.below(5);
        let keys: Vec<(i64, usize, usize)> = (0..nk).map(|_| {
            let tb = match ctx.below(8) { 0 => -1, 1 => i64::MAX, 2 => i64::MIN, _ => ctx.range(0, 3) };
            let n = match ctx.below(8) { 0 => 0, 1 => 62, 2 => 63 + ctx.below(8), _ => 1 + ctx.below(10) };
            let d = if ctx.chance(1, 15) { 0 } else { 1 + ctx.below(5) };
            (tb, n, d)
        }).collect();
        let len = 2 + ctx.below(24);
        let mut ops = vec![format!("rs {}", ctx.below(4))];
        for _ in 0..len { ops.push(rand_cache_op(ctx, &keys, true)); }
        ops.push("st".into());
        ctx.count("cache_histories"); ctx.add("cache_ops", ops.len() as u64);
        out.push(format!("c26.cache | {}", ops.join(" ; ")));
    }
    // storms
    let ns = ctx.budget(60, 600);
    for _ in 0..ns {
        let threads = 2 + ctx.below(3);
        let nk = 1 + ctx.below(4);
        let keys: Vec<(i64, usize, usize)> = (0..nk).map(|_| (ctx.range(0, 3), 1 + ctx.below(9), 1 + ctx.below(4))).collect();
        let len = 20 + ctx.below(60);
        let mut items = vec![format!("0 rs {}", ctx.below(3))];
        for _ in 0..len { let tid = ctx.below(threads); items.push(format!("{} {}", tid, rand_cache_op(ctx, &keys, true))); }
        ctx.count("storms"); ctx.add("storm_ops", items.len() as u64);
        out.push(format!("c26.storm {} | {}", threads, items.join(" ; ")));
    }
}

fn rand_ts(ctx: &mut Ctx) -> i64 {
    match ctx.below(10) { 0 => i64::MIN, 1 => i64::MAX, 2 => 0, 3 => -1, 4 => i64::MAX - ctx.range(0, 3), 5 => i64::MIN + ctx.range(0, 3), 6 => ctx.next() as i64, _ => ctx.range(-6, 6) }
}
fn gen_time(ctx: &mut Ctx, out: &mut Vec<String>) {
    let n = ctx.budget(3000, 30000);
    for _ in 0..n {
        out.push(format!("c26.time {} {} {} {}", rand_ts(ctx), rand_ts(ctx), rand_ts(ctx), rand_ts(ctx)));
        ctx.count("time_quads");
    }
    let n3 = ctx.budget(3000, 30000);
    for _ in 0..n3 {
        // nested by construction half of the time so that the premise of transitivity is met
        let mut v: Vec<i64> = (0..6).map(|_| if ctx.chance(1, 6) { rand_ts(ctx) } else { ctx.range(-5, 5) }).collect();
        if ctx.chance(1, 2) { v.sort(); let (a, b, c, d, e, f) = (v[0], v[1], v[2], v[3], v[4], v[5]); v = vec![a, f, b, e, c, d]; }
        out.push(format!("c26.time3 {} {} {} {} {} {}", v[0], v[1], v[2], v[3], v[4], v[5]));
        ctx.count("time_triples");
    }
}

fn gen_law(ctx: &mut Ctx, out: &mut Vec<String>) {
    let n = ctx.budget(6000, 60000);
    for _ in 0..n {
        let k = ctx.below(8);
        let x = rand_f32(ctx, k);
        let y = match ctx.below(5) { 0 => x, 1 => -x, _ => { let k2 = if ctx.chance(1, 2) { k } else { ctx.below(8) }; rand_f32(ctx, k2) } };
        ctx.count("law_pairs");
        out.push(format!("c26.law {:08x} {:08x}", x.to_bits(), y.to_bits()));
    }
}

pub fn gen(ctx: &mut Ctx) -> Vec<String> {
    let mut out = vec![];
    gen_probes(ctx, &mut out);
    gen_cache(ctx, &mut out);
    gen_time(ctx, &mut out);
    gen_dist(ctx, &mut out);
    gen_int8(ctx, &mut out);
    gen_quant(ctx, &mut out);
    gen_law(ctx, &mut out);
    // malformed stream
    for r in ["c26.dist v:zz v:", "c26.probes 1 2", "c26.cache | zz 1", "c26.time 1 2 3", "c26.quant", "c26.ranked 0 1 d:xx"] { out.push(r.to_string()); }
    out
}

// ------------------------------------------------------------------------------------------------
// exec

fn tri(f: impl Fn(&[f32], &[f32]) -> f64, a: &[f32], b: &[f32]) -> String { format!("{},{},{}", f64w(f(a, b)), f64w(f(b, a)), f64w(f(a, a))) }
fn tri8(f: impl Fn(&[i8], &[i8]) -> f64, a: &[i8], b: &[i8]) -> String { format!("{},{},{}", f64w(f(a, b)), f64w(f(b, a)), f64w(f(a, a))) }
fn chk(r: Result<f64, vo::VectorError>) -> String {
    match r { Ok(x) => f64w(x), Err(vo::VectorError::DimensionMismatch { expected, got }) => format!("dim{}-{}", expected, got), Err(vo::VectorError::EmptyVector) => "empty".into() }
}

fn exec_dist(a: &[f32], b: &[f32]) -> String {
    format!("e={} s={} c={} d={} m={} ck={},{},{},{} n={} z={}",
        tri(vo::euclidean_distance, a, b), tri(vo::euclidean_distance_squared, a, b), tri(vo::cosine_distance, a, b),
        tri(vo::dot_product, a, b), tri(vo::manhattan_distance, a, b),
        chk(vo::euclidean_distance_checked(a, b)), chk(vo::cosine_distance_checked(a, b)), chk(vo::dot_product_checked(a, b)), chk(vo::manhattan_distance_checked(a, b)),
        f64w(vo::vector_norm(a)), vec_res(&vo::normalize(a)))
}

fn exec_int8(a: &[i8], b: &[i8]) -> String {
    format!("e={} c={} d={} m={} de={} dc={} dq={}",
        tri8(vo::euclidean_distance_int8, a, b), tri8(vo::cosine_distance_int8, a, b), tri8(vo::dot_product_int8, a, b), tri8(vo::manhattan_distance_int8, a, b),
        f64w(vo::euclidean_distance_dequantized(a, b)), f64w(vo::cosine_distance_dequantized(a, b)), vec_res(&vo::dequantize_vector(a)))
}

fn exec_quant(a: &[f32]) -> String {
    let lin = vo::quantize_vector_linear(a);
    let sym = vo::quantize_vector_symmetric(a);
    let mm = vo::quantize_vector(a, vo::QuantizationMethod::MinMax);
    // the inverse the library offers for the symmetric quantiser: dequantize_vector_with_scale(q, max_abs / 127)
    let max_abs = a.iter().map(|x| x.abs()).fold(0.0f32, f32::max);
    let inv = max_abs / 127.0f32;
    let deq = vo::dequantize_vector_with_scale(&sym, inv);
    format!("lin={} sym={} mm={} deq={}", v8_res(&lin), v8_res(&sym), if mm == lin { "same" } else { "differs" }, vec_res(&deq))
}

fn exec_ranked(bucket: i64, m: usize, d: &[f64]) -> String {
    let p = vo::lsh_probes_ranked(bucket, d, m);
    let nn = d.len().min(62);
    if d.iter().take(nn).any(|x| x.is_nan()) {
        // comparator is not a total order: only order-independent facts are compared
        let head = p.first().map(|x| *x == bucket).unwrap_or(true);
        let mut s = p.clone(); s.sort(); s.dedup();
        let hds: Vec<u32> = p.iter().map(|x| (x ^ bucket).count_ones()).collect();
        let mono = hds.windows(2).all(|w| w[0] <= w[1]);
        let inrange = p.iter().all(|x| ((x ^ bucket) as u64) >> nn == 0);
        format!("nanorder len={} head={} nodup={} mono={} inrange={} maxhd={}", p.len(), head as u8, (s.len() == p.len()) as u8, mono as u8, inrange as u8, hds.iter().max().copied().unwrap_or(0))
    } else { ints(&p) }
}

fn cache_op(op: &str) -> String {
    let a: Vec<&str> = op.split(' ').collect();
    let us = |i: usize| a.get(i).and_then(|s| s.parse::<usize>().ok());
    let i6 = |i: usize| a.get(i).and_then(|s| s.parse::<i64>().ok());
    match a[0] {
        "b" => match (i6(1), us(2), a.get(3).and_then(|s| vec_of_wire(s))) { (Some(t), Some(n), Some(v)) => vo::lsh_bucket(&v, t, n).to_string(), _ => "bad".into() },
        "b8" => match (i6(1), us(2), a.get(3).and_then(|s| v8_of_wire(s))) { (Some(t), Some(n), Some(v)) => vo::lsh_bucket_int8(&v, t, n).to_string(), _ => "bad".into() },
        "bs" => match (us(1), us(2), a.get(3).and_then(|s| vec_of_wire(s))) { (Some(t), Some(n), Some(v)) => ints(&vo::lsh_buckets(&v, t, n)), _ => "bad".into() },
        "bd" => match (i6(1), us(2), a.get(3).and_then(|s| vec_of_wire(s))) {
            (Some(t), Some(n), Some(v)) => { let (b, d) = vo::lsh_bucket_with_distances(&v, t, n); format!("{}:{}", b, if d.is_empty() { "-".into() } else { d.iter().map(|x| f64w(*x)).collect::<Vec<_>>().join("/") }) }
            _ => "bad".into() },
        "mp" => match (i6(1), us(2), us(3), a.get(4).and_then(|s| vec_of_wire(s))) {
            (Some(t), Some(n), Some(m), Some(v)) => {
                if v.iter().any(|x| !x.is_finite()) {
                    // distances may be NaN: order unspecified; go through the two halves separately
                    let (b, d) = vo::lsh_bucket_with_distances(&v, t, n); let _ = vo::lsh_multi_probe(&v, t, n, m); exec_ranked(b, m, &d)
                } else { ints(&vo::lsh_multi_probe(&v, t, n, m)) }
            }
            _ => "bad".into() },
        "pw" => match (i6(1), us(2), us(3)) { (Some(t), Some(n), Some(d)) => { vo::prewarm_lsh_cache(t, n, d); "-".into() } _ => "bad".into() },
        "cl" => { vo::clear_lsh_cache(); "-".into() }
        "rs" => match us(1) { Some(m) => { vo::configure_lsh_cache_size(m); "-".into() } None => "bad".into() },
        "st" => { let s = vo::get_lsh_cache_stats(); format!("h{}m{}e{}n{}", s.hits, s.misses, s.evictions, s.entries) }
        _ => "bad".into(),
    }
}

fn exec_cache(items: &str) -> String {
    vo::clear_lsh_cache(); vo::configure_lsh_cache_size(64);
    items.split(" ; ").map(cache_op).collect::<Vec<_>>().join(" ; ")
}

fn exec_storm(threads: usize, items: &str) -> String {
    vo::clear_lsh_cache(); vo::configure_lsh_cache_size(64);
    let items: Vec<(usize, String)> = items.split(" ; ").filter_map(|it| { let (t, op) = it.split_once(' ')?; Some((t.parse::<usize>().ok()? % threads.max(1), op.to_string())) }).collect();
    let n = items.len();
    let results: std::sync::Arc<parking_lot::Mutex<Vec<String>>> = std::sync::Arc::new(parking_lot::Mutex::new(vec![String::new(); n]));
    let items = std::sync::Arc::new(items);
    let barrier = std::sync::Arc::new(std::sync::Barrier::new(threads.max(1)));
    let hs: Vec<_> = (0..threads.max(1)).map(|tid| {
        let (items, results, barrier) = (items.clone(), results.clone(), barrier.clone());
        std::thread::spawn(move || {
            barrier.wait();
            for (i, (t, op)) in items.iter().enumerate() {
                if *t != tid { continue; }
                // statistics are schedule-dependent: executed (to stress the locks) but not reported
                let r = if op == "st" { let _ = cache_op(op); "-".to_string() } else { cache_op(op) };
                results.lock()[i] = r;
                if i % 3 == 0 { std::thread::yield_now(); }
            }
        })
    }).collect();
    for h in hs { if h.join().is_err() { return "panic:thread".into(); } }
    let r = results.lock().clone(); r.join(" ; ")
}

fn b01(b: bool) -> char { if b { '1' } else { '0' } }

fn exec_time(a: i64, b: i64, c: i64, d: i64) -> String {
    let dec = t::time_decay(a, b, c);
    // powf is not compared bit-for-bit: exact where the code returns a constant, otherwise only its class
    let decs = if dec == 1.0 { "one" } else if dec == 0.0 { "zero" } else if dec > 0.0 && dec < 1.0 { "mid" } else { "out" };
    format!("diff={} add={} sub={} bef={} aft={} btw={} wl={} ov={}{} ct={} dur={} pt={} lin={} dec={}",
        t::time_diff(a, b), t::time_add(a, b), t::time_sub(a, b), b01(t::time_before(a, b)), b01(t::time_after(a, b)), b01(t::time_between(a, b, c)),
        b01(t::within_last(a, b, c)), b01(t::intervals_overlap(a, b, c, d)), b01(t::intervals_overlap(c, d, a, b)), b01(t::interval_contains(a, b, c, d)),
        t::interval_duration(a, b), b01(t::point_in_interval(a, b, c)), f64w(t::time_decay_linear(a, b, c)), decs)
}

fn exec_law(x: f32, y: f32) -> String {
    let xd = f64::from(x); let yd = f64::from(y);
    let d1 = x - y; let d2 = y - x;
    format!("mul={},{} sq={},{} ad={},{} add={} sub={} div={} xx={} xmx={} ab={} rd={} i8={} w={} sqrt={} m64={},{} a64={} s64={} d64={} nr={} lt={}{}{} cl={} mn={} mx={}",
        f32w(x * y), f32w(y * x), f32w(d1 * d1), f32w(d2 * d2), f64w(f64::from(d1).abs()), f64w(f64::from(d2).abs()),
        f32w(x + y), f32w(d1), f32w(x / y), f32w(x * x), f32w(x - x), f32w(x.abs()), f32w(x.round()), (x.round().clamp(-128.0, 127.0) as i8),
        f64w(xd), f64w(xd.abs().sqrt()), f64w(xd * yd), f64w(yd * xd), f64w(xd + yd), f64w(xd - yd), f64w(xd / yd), f32w((xd * yd) as f32),
        b01(x < y), b01(x == y), b01(x > 0.0), f64w(xd.clamp(-1.0, 1.0)), f32w(x.min(y)), f32w(x.max(y)))
}

pub fn exec(req: &str) -> String {
    let (head, items) = match req.split_once(" | ") { Some((h, i)) => (h, Some(i)), None => (req, None) };
    let p: Vec<&str> = head.split(' ').collect();
    let i6 = |i: usize| p.get(i).and_then(|s| s.parse::<i64>().ok());
    let us = |i: usize| p.get(i).and_then(|s| s.parse::<usize>().ok());
    match (p[0], items) {
        ("c26.dist", None) if p.len() == 3 => match (vec_of_wire(p[1]), vec_of_wire(p[2])) { (Some(a), Some(b)) => exec_dist(&a, &b), _ => "bad-request".into() },
        ("c26.int8", None) if p.len() == 3 => match (v8_of_wire(p[1]), v8_of_wire(p[2])) { (Some(a), Some(b)) => exec_int8(&a, &b), _ => "bad-request".into() },
        ("c26.quant", None) if p.len() == 2 => match vec_of_wire(p[1]) { Some(a) => exec_quant(&a), None => "bad-request".into() },
        ("c26.probes", None) if p.len() == 4 => match (i6(1), us(2), us(3)) { (Some(b), Some(n), Some(m)) => ints(&vo::lsh_probes(b, n, m)), _ => "bad-request".into() },
        ("c26.ranked", None) if p.len() == 4 => match (i6(1), us(2), f64s_of_wire(p[3])) { (Some(b), Some(m), Some(d)) => exec_ranked(b, m, &d), _ => "bad-request".into() },
        ("c26.ham", None) if p.len() == 3 => match (i6(1), i6(2)) { (Some(a), Some(b)) => format!("{} {} {}", vo::hamming_distance(a, b), vo::abs_i64(a), vo::abs_i64(b)), _ => "bad-request".into() },
        ("c26.cache", Some(it)) if p.len() == 1 => exec_cache(it),
        ("c26.storm", Some(it)) if p.len() == 2 => match us(1) { Some(t) if t >= 1 && t <= 8 => exec_storm(t, it), _ => "bad-request".into() },
        ("c26.time", None) if p.len() == 5 => match (i6(1), i6(2), i6(3), i6(4)) { (Some(a), Some(b), Some(c), Some(d)) => exec_time(a, b, c, d), _ => "bad-request".into() },
        ("c26.time3", None) if p.len() == 7 => { let v: Option<Vec<i64>> = (1..7).map(i6).collect(); match v { Some(v) => format!("{}{}{}", b01(t::interval_contains(v[0], v[1], v[2], v[3])), b01(t::interval_contains(v[2], v[3], v[4], v[5])), b01(t::interval_contains(v[0], v[1], v[4], v[5]))), None => "bad-request".into() } }
        ("c26.law", None) if p.len() == 3 => match (u32::from_str_radix(p[1], 16), u32::from_str_radix(p[2], 16)) { (Ok(x), Ok(y)) => exec_law(f32::from_bits(x), f32::from_bits(y)), _ => "bad-request".into() },
        _ => "bad-request".into(),
    }
}
pub const TGEN: Option<fn() -> String> = None;
