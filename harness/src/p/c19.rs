//! C19 — consistent reads from the incremental engine vs the served facts, sequential histories
//! and writer/writer/reader interleavings (time assignment and apply are separate steps).
//! request: `c19.run inc=1 R=<#rels> T=<programs> | t ; t ; …`   (lean/ILV/Drv/EStepIO.lean)
use crate::common::*;
use crate::u::eng::*;

pub fn exec(req: &str) -> String { if req.starts_with("c19.run ") { crate::u::eng::exec(req) } else { "bad-request".into() } }

fn req(nr: usize, progs: &[Vec<Op>], sched: &[usize]) -> String {
    format!("c19.run inc=1 R={} T={} | {}", nr, show_progs(progs), sched.iter().map(|t| t.to_string()).collect::<Vec<_>>().join(" ; "))
}

fn random_write(ctx: &mut Ctx, nr: usize) -> Op {
    let r = ctx.below(nr);
    let k = 1 + ctx.below(3);
    let v: Vec<i64> = (0..k).map(|_| ctx.range(1, 5)).collect();          // duplicates inside a batch happen
    if ctx.chance(3, 5) { Op::Insert(r, v) } else { Op::Delete(r, v) }       // absent deletes happen
}

pub fn gen(ctx: &mut Ctx) -> Vec<String> {
    let mut out = vec![];
    // (1) sequential histories: one thread, 3-10 writes with reads in between
    let n = ctx.budget(500, 6000);
    for _ in 0..n {
        let nr = 1 + ctx.below(2);
        let len = 3 + ctx.below(8);
        let prog: Vec<Op> = (0..len).map(|_| if ctx.chance(1, 4) { Op::ReadC(ctx.below(nr)) } else { random_write(ctx, nr) }).collect();
        ctx.count("sequential_history");
        out.push(req(nr, &[prog], &[]));
    }
    // (2) two writers + a reader: all interleavings of the shape of the expected defect, and of a
    //     variant on two relations (a relation created after the read has a fresh input session)
    let shapes: Vec<(usize, Vec<Vec<Op>>)> = vec![
        (1, vec![vec![Op::Insert(0, vec![1])], vec![Op::Insert(0, vec![2])], vec![Op::ReadC(0)]]),
        (2, vec![vec![Op::Insert(0, vec![1])], vec![Op::Insert(1, vec![2])], vec![Op::ReadC(1)]]),
        (1, vec![vec![Op::Insert(0, vec![1]), Op::Delete(0, vec![1])], vec![Op::Insert(0, vec![1]), Op::ReadC(0)]]),
    ];
    for (nr, progs) in &shapes {
        let counts: Vec<usize> = progs.iter().map(|p| p.iter().map(op_steps).sum()).collect();
        let all = interleavings(&counts, 100000);
        let cap = ctx.budget(200, 3000);
        let stride = (all.len() + cap - 1) / cap;
        for s in all.iter().step_by(stride.max(1)) { out.push(req(*nr, progs, s)); ctx.count("enumerated"); }
    }
    // (3) random: 2 writers x 1-2 writes + reader x 1-2 reads, random interleaving
    let n = ctx.budget(600, 8000);
    for _ in 0..n {
        let nr = 1 + ctx.below(2);
        let mut progs: Vec<Vec<Op>> = (0..2).map(|_| (0..1 + ctx.below(2)).map(|_| random_write(ctx, nr)).collect()).collect();
        progs.push((0..1 + ctx.below(2)).map(|_| Op::ReadC(ctx.below(nr))).collect());
        let counts: Vec<usize> = progs.iter().map(|p| p.iter().map(op_steps).sum()).collect();
        let mut left = counts.clone(); let mut s = vec![];
        while left.iter().any(|&c| c > 0) { let live: Vec<usize> = (0..3).filter(|&t| left[t] > 0).collect(); let t = *ctx.pick(&live); left[t] -= 1; s.push(t); }
        ctx.count("random_concurrent");
        out.push(req(nr, &progs, &s));
    }
    out.push("c19.run inc=1 R=1 T=c0 | 0".into());
    out.push("c19.run inc=0 R=1 T=i0.1,c0 | 0".into());
    out
}
pub const TGEN: Option<fn() -> String> = None;
