//! C02 — optimizer settings never change answers.
//! `c02.cfgs | facts ; rules`   real `IQLEngine::execute_tuples` under all 32 `OptimizationConfig`s:
//!        output = all-off answer, then `#<answer>@<mask>+<mask>…` (mask = jp sip ss bs ms) for the configurations that differ.
//! `c02.ir <tree> | facts`      IR-level pipeline over the switch that has a Lean model: real
//!        `Optimizer::optimize` alone vs real `BooleanSpecializer::specialize` then `optimize`
//!        (trees, semiring, DD answers).
use crate::common::*;
use crate::p::c05::{run_tree, sem_w};
use crate::u::dl::*;
use crate::u::irgen::*;
use crate::u::irw::*;
use inputlayer::{BooleanSpecializer, Optimizer, SemiringType};

pub fn masks() -> Vec<String> { (0..32u32).map(|m| (0..5).map(|i| if m >> (4 - i) & 1 == 1 { '1' } else { '0' }).collect()).collect() }

/// aggregate rules whose body atoms carry wildcard / constant / repeated-variable columns (SIP keeps only unique variables)
fn agg_program(ctx: &mut Ctx) -> Vec<Rule> {
    let f = *ctx.pick(&["count", "sum", "min", "max", "count_distinct"]);
    let third = match ctx.below(4) { 0 => T::W, 1 => c(ctx.range(0, 2)), 2 => v("Y"), _ => v("U") };
    let mut body = vec![pos("w", vec![v("X"), v("Y"), third]), pos("e", vec![v("Y"), v("Z")])];
    if ctx.chance(1, 3) { body.push(pos("n", vec![v("Z")])); }
    if ctx.chance(1, 4) { body.push(cmp("gt", ev("Z"), E::C(ctx.range(0, 2)))); }
    let mut hargs = if ctx.chance(1, 4) { vec![] } else { vec![hv("X")] };
    hargs.push(H::A(f.to_string(), ctx.pick(&["Z", "Y"]).to_string()));
    let ar = hargs.len();
    vec![rule("a", hargs, body), gen_query(ctx, "a", ar)]
}

pub fn gen(ctx: &mut Ctx) -> Vec<String> {
    let mut out = vec![];
    for i in 0..ctx.budget(450, 4000) {
        let (shape, rules) = if i % 5 == 4 { ("agg_sip".to_string(), agg_program(ctx)) } else { let g = gen_program(ctx); (g.shape.to_string(), g.rules) };
        ctx.count(&format!("shape_{shape}")); ctx.add("clauses", rules.len() as u64);
        let rels = edb_rels_of(&rules); let relrefs: Vec<(&str, usize)> = rels.iter().map(|(r, a)| (r.as_str(), *a)).collect();
        let edb = gen_edb(ctx, &relrefs, 6, 3);
        out.push(format!("c02.cfgs | {}", items_wire(&edb, &rules)));
    }
    let mut tg = TreeGen { counter: 0, simple_preds: true };
    for i in 0..ctx.budget(450, 4000) {
        let t = match i % 3 { 0 => { let ncl = if i % 2 == 0 { 1 } else { 2 }; rule_head(ctx, ncl, true, i % 5 == 0) } 1 => targeted(ctx, i / 3), _ => { let b = 1 + ctx.below(6); tg.tree(ctx, b) } };
        let dup = ctx.chance(1, 4); let db = gen_db(ctx, false, dup, 5);
        let f = facts_wire(&db);
        out.push(if f.is_empty() { format!("c02.ir {}", node_wire(&t)) } else { format!("c02.ir {} | {}", node_wire(&t), f) });
        ctx.count("ir_pipeline");
    }
    out
}

pub fn exec(req: &str) -> String {
    if req.starts_with("c02.cfgs") {
        let items = req.split_once(" | ").map(|x| x.1).unwrap_or("");
        let (edb, rules) = match parse_items(items) { Some(x) => x, None => return "bad-request".into() };
        let ms = masks();
        let base = run_engine(&cfg_of_wire(&format!("{}:1:0", ms[0])).unwrap(), &edb, &rules);
        // groups of configurations by answer, in order of first appearance: `base#answer@mask+mask#…`
        let mut groups: Vec<(String, Vec<String>)> = vec![];
        for m in &ms[1..] {
            let r = run_engine(&cfg_of_wire(&format!("{m}:1:0")).unwrap(), &edb, &rules);
            if r != base { match groups.iter_mut().find(|g| g.0 == r) { Some(g) => g.1.push(m.clone()), None => groups.push((r, vec![m.clone()])) } }
        }
        let mut out = base.clone();
        for (r, ms) in groups { out.push_str(&format!("#{}@{}", r, ms.join("+"))); }
        return out;
    }
    if req.starts_with("c02.ir") {
        let toks: Vec<&str> = req.split(' ').collect();
        let (t, db) = match tree_and_db(toks[1..].to_vec()) { Some(x) => x, None => return "bad-request".into() };
        let o0 = Optimizer::new().optimize(t.clone());
        let (s, a) = BooleanSpecializer::new().specialize(t.clone());
        let o1 = Optimizer::new().optimize(s);
        // the engine runs a head without annotation under the counting diff type (lib.rs:1654)
        return format!("{}#{}#sem={} {}#{}", node_wire(&o0), run_tree(&o0, &db, SemiringType::Counting), sem_w(a.semiring), node_wire(&o1), run_tree(&o1, &db, a.semiring));
    }
    "bad-request".into()
}
pub const TGEN: Option<fn() -> String> = None;
