//! C31 — real `Ord`/`Eq`/`Hash` of `Value` and `Tuple` on pairs and triples.
use crate::common::*;
use inputlayer::{Tuple, Value};
use std::hash::{Hash, Hasher};
use inputlayer::storage::persist::{consolidate, consolidate_to_current, Update};

/// A hasher that records the exact byte stream it is fed, so "hash equally" is decided on the
/// input of the hash function (the hash function itself is a parameter of the model).
#[derive(Default)]
struct Rec(Vec<u8>);
impl Hasher for Rec {
    fn finish(&self) -> u64 { 0 }
    fn write(&mut self, b: &[u8]) { self.0.extend_from_slice(b); self.0.push(0xfe); }
}
fn stream<T: Hash>(t: &T) -> Vec<u8> { let mut r = Rec::default(); t.hash(&mut r); r.0 }
fn default_hash<T: Hash>(t: &T) -> u64 { let mut h = std::collections::hash_map::DefaultHasher::new(); t.hash(&mut h); h.finish() }

pub fn gen(ctx: &mut Ctx) -> Vec<String> {
    let pool = value_pool();
    let mut out = vec![];
    // all ordered pairs of single values over the pool
    for a in &pool { for b in &pool {
        out.push(format!("c31.pair {} {}", val_to_wire(a), val_to_wire(b)));
    } }
    ctx.add("pool_pairs", (pool.len() * pool.len()) as u64);
    // triples: exhaustive over the pool in thorough, sampled + all same-kind float/vector triples in quick
    if ctx.thorough {
        for a in &pool { for b in &pool { for c in &pool {
            out.push(format!("c31.triple {} {} {}", val_to_wire(a), val_to_wire(b), val_to_wire(c)));
        } } }
    } else {
        let fl: Vec<&Value> = pool.iter().filter(|v| matches!(v, Value::Float64(_) | Value::Vector(_) | Value::Int64(_))).collect();
        for a in &fl { for b in &fl { for c in &fl {
            out.push(format!("c31.triple {} {} {}", val_to_wire(a), val_to_wire(b), val_to_wire(c)));
        } } }
        for _ in 0..20000 {
            let (a, b, c) = (ctx.pick(&pool).clone(), ctx.pick(&pool).clone(), ctx.pick(&pool).clone());
            out.push(format!("c31.triple {} {} {}", val_to_wire(&a), val_to_wire(&b), val_to_wire(&c)));
        }
    }
    // random tuples (arity 0..3), pairs and triples
    let n = ctx.budget(20000, 100000);
    for i in 0..n {
        let ar = ctx.below(4);
        let mk = |ctx: &mut Ctx, base: Option<&Tuple>| -> Tuple {
            // with probability 1/2 share a prefix with `base` so that later columns decide
            let mut vs = vec![];
            for k in 0..ar {
                if let Some(b) = base { if ctx.chance(1, 2) && k < b.values().len() { vs.push(b.values()[k].clone()); continue; } }
                vs.push(random_value(ctx));
            }
            Tuple::new(vs)
        };
        let a = mk(ctx, None); let b = mk(ctx, Some(&a)); 
        if i % 2 == 0 {
            out.push(format!("c31.pair {} {}", tuple_to_wire(&a), tuple_to_wire(&b)));
        } else {
            let c = mk(ctx, Some(&b));
            out.push(format!("c31.triple {} {} {}", tuple_to_wire(&a), tuple_to_wire(&b), tuple_to_wire(&c)));
        }
    }
    // consolidation histories: few distinct tuples (many collisions), awkward floats included
    let n = ctx.budget(3000, 30000);
    for i in 0..n {
        let ar = 1 + ctx.below(2);
        let ndist = 1 + ctx.below(4);
        let specials = [Value::Float64(0.0), Value::Float64(-0.0), Value::Float64(f64::NAN), Value::Float64(1.0), Value::Int64(0), Value::Int32(0),
                        Value::Vector(std::sync::Arc::new(vec![0.0])), Value::Vector(std::sync::Arc::new(vec![-0.0])), Value::Vector(std::sync::Arc::new(vec![f32::NAN]))];
        let dist: Vec<Tuple> = (0..ndist).map(|_| Tuple::new((0..ar).map(|_| if ctx.chance(1, 2) { ctx.pick(&specials).clone() } else { random_value(ctx) }).collect())).collect();
        let len = ctx.below(9);
        let items: Vec<String> = (0..len).map(|_| { let t = ctx.pick(&dist).clone(); format!("{}@{}@{}", tuple_to_wire(&t), ctx.below(3), if ctx.chance(1, 2) { 1 } else { -1 }) }).collect();
        out.push(format!("{} | {}", if i % 3 == 0 { "c31.cons2" } else { "c31.cons" }, items.join(" ; ")));
        ctx.count("consolidate_histories");
    }
    out
}

fn upd_of_wire(s: &str) -> Option<Update> {
    let mut it = s.split('@');
    let d = tuple_of_wire(it.next()?)?; let t: u64 = it.next()?.parse().ok()?; let k: i64 = it.next()?.parse().ok()?;
    Some(Update { data: d, time: t, diff: k })
}

fn exec_cons(req: &str, both: bool) -> String {
    let tail = req.split_once(" | ").map(|x| x.1).unwrap_or("");
    let us: Option<Vec<Update>> = tail.split(" ; ").filter(|s| !s.trim().is_empty()).map(|s| upd_of_wire(s.trim())).collect();
    let mut us = match us { Some(u) => u, None => return "bad-request".into() };
    if both { consolidate(&mut us) } else { consolidate_to_current(&mut us) }
    if us.is_empty() { return "{}".into(); }
    us.iter().map(|u| format!("{}@{}@{}", tuple_to_wire(&u.data), u.time, u.diff)).collect::<Vec<_>>().join(";")
}

pub fn exec(req: &str) -> String {
    if req.starts_with("c31.cons2") { return exec_cons(req, true); }
    if req.starts_with("c31.cons") { return exec_cons(req, false); }
    let parts: Vec<&str> = req.split(' ').collect();
    let ts: Option<Vec<Tuple>> = parts[1..].iter().map(|s| tuple_of_wire(s)).collect();
    let ts = match ts { Some(t) => t, None => return "bad-request".into() };
    match (parts[0], ts.len()) {
        ("c31.pair", 2) => {
            let (a, b) = (&ts[0], &ts[1]);
            let hs = stream(a) == stream(b);
            // the real hasher must agree whenever the streams agree
            if hs && default_hash(a) != default_hash(b) { return "hash-stream-equal-but-hash-differs".into(); }
            format!("{} {} {} {}", ord_to_wire(a.cmp(b)), if a == b { 1 } else { 0 }, if hs { 1 } else { 0 }, ord_to_wire(b.cmp(a)))
        }
        ("c31.triple", 3) => format!("{} {} {}", ord_to_wire(ts[0].cmp(&ts[1])), ord_to_wire(ts[1].cmp(&ts[2])), ord_to_wire(ts[0].cmp(&ts[2]))),
        _ => "bad-request".into(),
    }
}
pub const TGEN: Option<fn() -> String> = None;
