//! C06 — aggregate values are exact.
//! `c06.build | rule`                real `IRBuilder::build_ir` on the parsed rule → IR tree (join key pairs sorted by left column)
//! `c06.run <jp sip ss bs ms> | facts ; rule`   real `IQLEngine::execute_tuples` on the one-rule program under that configuration
use crate::common::*;
use crate::u::dl::*;
use crate::u::irw::node_wire;
use inputlayer::ir::IRNode;
use inputlayer::{Catalog, IRBuilder, Tuple, Value};

fn canon(n: IRNode) -> IRNode {
    let b = |x: Box<IRNode>| Box::new(canon(*x));
    match n {
        IRNode::Join { left, right, left_keys, right_keys, output_schema } => {
            let mut ks: Vec<(usize, usize)> = left_keys.into_iter().zip(right_keys).collect(); ks.sort();
            IRNode::Join { left: b(left), right: b(right), left_keys: ks.iter().map(|k| k.0).collect(), right_keys: ks.iter().map(|k| k.1).collect(), output_schema }
        }
        IRNode::Map { input, projection, output_schema } => IRNode::Map { input: b(input), projection, output_schema },
        IRNode::Filter { input, predicate } => IRNode::Filter { input: b(input), predicate },
        IRNode::Aggregate { input, group_by, aggregations, output_schema } => IRNode::Aggregate { input: b(input), group_by, aggregations, output_schema },
        other => other,
    }
}

const BIG: i64 = i64::MAX / 2 + 7;
fn val(ctx: &mut Ctx, kind: usize) -> Value {
    match kind {
        0 => Value::Int64(ctx.range(0, 2)),
        1 => Value::Int64(ctx.range(-3, 3)),
        _ => Value::Int64(*ctx.pick(&[0, 1, -1, 2, BIG, -BIG, i64::MAX, i64::MIN, 1 << 53, (1 << 53) + 1])),
    }
}
fn edb(ctx: &mut Ctx, kind: usize) -> Vec<(String, Vec<Tuple>)> {
    let mut db = vec![];
    for (r, ar) in [("e", 2usize), ("f", 2), ("n", 1), ("w", 3)] {
        let n = 1 + ctx.below(6); let mut rows: Vec<Tuple> = vec![];
        for _ in 0..n {
            // join columns stay in a tiny domain so that joins multiply bindings; the last column carries the interesting values
            let t = Tuple::new((0..ar).map(|i| if i + 1 == ar && ar > 1 { val(ctx, kind) } else { Value::Int64(ctx.range(0, 2)) }).collect());
            if !rows.contains(&t) { rows.push(t); }
        }
        db.push((r.to_string(), rows));
    }
    db
}

fn agg_rule(ctx: &mut Ctx) -> Rule {
    let shape = ctx.below(8);
    let third = match ctx.below(5) { 0 => T::W, 1 => c(ctx.range(0, 2)), 2 => v("Y"), _ => v("U") };
    let mut body = match shape {
        0 => vec![pos("e", vec![v("X"), v("Z")])],
        1 => vec![pos("w", vec![v("X"), v("Y"), v("Z")])],
        2 => vec![pos("w", vec![v("X"), T::W, v("Z")])],
        3 => vec![pos("e", vec![v("X"), v("Y")]), pos("f", vec![v("Y"), v("Z")])],
        4 => vec![pos("w", vec![v("X"), v("Y"), third]), pos("e", vec![v("Y"), v("Z")])],
        5 => vec![pos("e", vec![v("X"), v("Y")]), pos("f", vec![v("Y"), v("Z")]), pos("n", vec![v("X")])],
        6 => vec![pos("n", vec![v("X")]), pos("e", vec![T::W, v("Z")])],                      // cartesian, wildcard
        _ => vec![pos("e", vec![v("X"), v("Y")]), pos("e", vec![v("Y"), v("Z")])],           // self join
    };
    if ctx.chance(1, 3) { let (a, b) = (*ctx.pick(&["X", "Z"]), ctx.range(-1, 2)); body.push(cmp(*ctx.pick(&["gt", "le", "ne"]), ev(a), E::C(b))); }
    if ctx.chance(1, 6) { body.push(cmp(*ctx.pick(&["lt", "ne"]), ev("X"), ev("Z"))); }
    if ctx.chance(1, 8) { body.push(cmp("lt", E::C(ctx.range(-1, 1)), ev("Z"))); }
    let f = *ctx.pick(&["count", "sum", "min", "max", "count_distinct", "avg"]);
    let bv: Vec<&str> = if shape == 3 || shape == 4 || shape == 5 || shape == 7 { vec!["X", "Y", "Z"] } else { vec!["X", "Z"] };
    let mut hargs = match ctx.below(6) { 0 => vec![], 1 if bv.len() == 3 => vec![hv("X"), hv("Y")], _ => vec![hv("X")] };
    let agg = H::A(f.to_string(), ctx.pick(&bv).to_string());
    if ctx.chance(1, 8) && !hargs.is_empty() { hargs.insert(0, agg); } else { hargs.push(agg); }
    if ctx.chance(1, 5) { let f2 = *ctx.pick(&["count", "sum", "max"]); hargs.push(H::A(f2.to_string(), "Z".into())); }
    rule("a", hargs, body)
}

pub fn gen(ctx: &mut Ctx) -> Vec<String> {
    let mut out = vec![];
    for i in 0..ctx.budget(400, 5000) {
        let r = agg_rule(ctx);
        let kind = match i % 4 { 0 => 0, 1 | 2 => 1, _ => 2 };
        // avg is kept away from magnitudes where the f64 sum depends on the order of addition
        let kind = if r.hargs.iter().any(|h| matches!(h, H::A(f, _) if f == "avg")) && kind == 2 { 1 } else { kind };
        let db = edb(ctx, kind);
        let items = items_wire(&db, &[r.clone()]);
        if i % 3 == 0 { out.push(format!("c06.build | {}", rule_wire(&r))); }
        out.push(format!("c06.run 00000 | {items}"));
        let m = match i % 6 { 0 => "00010", 1 => "11111", 2 => "01000", 3 => "10000", 4 => "00100", _ => "01010" };
        out.push(format!("c06.run {m} | {items}"));
        ctx.count(&format!("aggs_{}", r.hargs.iter().filter(|h| matches!(h, H::A(..))).count()));
        ctx.count(&format!("atoms_{}", r.body.iter().filter(|l| matches!(l, L::P(_))).count()));
        if kind == 2 { ctx.count("extreme_values"); }
    }
    // malformed: aggregated / grouped variable not bound, constant in an aggregate head
    for _ in 0..ctx.budget(20, 100) {
        let mut r = agg_rule(ctx);
        match ctx.below(2) { 0 => r.hargs.push(H::A("sum".into(), "Q".into())), _ => r.hargs.insert(0, hc(1)) }
        let db = edb(ctx, 0);
        out.push(format!("c06.build | {}", rule_wire(&r)));
        out.push(format!("c06.run 00000 | {}", items_wire(&db, &[r])));
        ctx.count("malformed");
    }
    out
}

pub fn exec(req: &str) -> String {
    let (head, items) = match req.split_once(" | ") { Some(x) => x, None => return "bad-request".into() };
    let hp: Vec<&str> = head.split(' ').collect();
    match hp[0] {
        "c06.build" => {
            let r = match rule_of_wire(items) { Some(r) => r, None => return "bad-request".into() };
            let prog = match inputlayer::parse_program(&rule_iql(&r)) { Ok(p) => p, Err(_) => return "err:parse".into() };
            if prog.rules.len() != 1 { return "err:parse".into(); }
            match IRBuilder::new(Catalog::new()).build_ir(&prog.rules[0]) { Ok(t) => node_wire(&canon(t)), Err(_) => "err:build".into() }
        }
        "c06.run" if hp.len() == 2 => {
            let (edb, rules) = match parse_items(items) { Some(x) => x, None => return "bad-request".into() };
            let cfg = match cfg_of_wire(&format!("{}:1:0", hp[1])) { Some(c) => c, None => return "bad-request".into() };
            run_engine(&cfg, &edb, &rules)
        }
        _ => "bad-request".into(),
    }
}
pub const TGEN: Option<fn() -> String> = None;
