//! C08 — row limits only truncate the true answer.
//! `c08.run sssss:1:L | facts ; rules` → `limited answer#derived relations of the limited run / unlimited answer`.
use crate::common::*;
use crate::u::dl::*;

pub fn gen(ctx: &mut Ctx) -> Vec<String> {
    let mut out = vec![];
    let n = ctx.budget(500, 5000);
    for _ in 0..n {
        let gp = gen_program(ctx);
        ctx.count(&format!("shape_{}", gp.shape));
        let rels = edb_rels_of(&gp.rules); let relrefs: Vec<(&str, usize)> = rels.iter().map(|(r, a)| (r.as_str(), *a)).collect();
        let edb = gen_edb(ctx, &relrefs, 9, 5);
        let items = items_wire(&edb, &gp.rules);
        for l in [1usize, 2, 3, 5, 8] {
            if ctx.chance(3, 5) { out.push(format!("c08.run 00000:1:{l} | {items}")); ctx.count(&format!("limit_{l}")); }
        }
        if ctx.chance(1, 3) { let l = *ctx.pick(&[1usize, 2, 3]); out.push(format!("c08.run 11111:1:{l} | {items}")); ctx.count("default_cfg"); }
    }
    out
}

pub fn exec(req: &str) -> String {
    match split_req(req) {
        Some((_, cfg, edb, rules)) => {
            let mut c0 = cfg.clone(); c0.limit = 0;
            format!("{} / {}", run_engine_all(&cfg, &edb, &rules), run_engine(&c0, &edb, &rules))
        }
        None => "bad-request".into(),
    }
}
pub const TGEN: Option<fn() -> String> = None;
