//! C17 — knowledge graphs are isolated and drops are final.
//! `c17.h | item ; item ; …`   sequential history with restarts on one data dir:
//!     create,<kg> | drop,<kg> | ins,<kg>,<rel>,<id> | del,<kg>,<rel>,<id> | save,<kg> | restart
//!   output: `<r1> <r2> … # <obs after each restart and at the end, joined by ' # '>`
//!     r = ok | i<new>.<dup> | d<n> | nf (KG not found) | ex (exists) | inv (invalid name) | drp (being dropped) | dd (cannot drop default/current) | err
//!     obs = `kg{rel=ids,rel=ids} kg{}` sorted by name; snapshot contents of every existing KG
//! `c17.s T=<programs> | t ; t ; …`  scheduled threads (programs `/`-separated, ops `+`-separated, same op syntax),
//!   then a restart; output `res=<per thread results> live=<obs> restart=<obs>`
use crate::common::*;
use crate::u::eng::{cfg, id_of, tup};
use crate::u::sched::*;
use inputlayer::storage::StorageError;
use inputlayer::StorageEngine;
use std::sync::{Arc, Mutex};

/// wire form of a name: every UTF-8 byte other than [A-Za-z0-9._:-] and `_` is written `^xx` (hex);
/// the Lean model works on the byte string
pub fn enc(name: &str) -> String {
    name.bytes().map(|b| if b.is_ascii_alphanumeric() || b"._-:".contains(&b) || b == b'_' { (b as char).to_string() } else { format!("^{:02x}", b) }).collect()
}
pub fn dec(w: &str) -> String {
    let b = w.as_bytes(); let mut out = vec![]; let mut i = 0;
    while i < b.len() {
        if b[i] == b'^' && i + 3 <= b.len() && w.is_char_boundary(i + 1) && w.is_char_boundary(i + 3) { if let Ok(x) = u8::from_str_radix(&w[i + 1..i + 3], 16) { out.push(x); i += 3; continue; } }
        out.push(b[i]); i += 1;
    }
    String::from_utf8_lossy(&out).into_owned()
}

fn err_code(e: &StorageError) -> String {
    match e {
        StorageError::KnowledgeGraphNotFound(_) => "nf".into(),
        StorageError::KnowledgeGraphExists(_) => "ex".into(),
        StorageError::InvalidRelationName(_) => "inv".into(),
        StorageError::CannotDropDefault | StorageError::CannotDropCurrentKnowledgeGraph => "dd".into(),
        StorageError::Other(s) if s.contains("is being dropped") => "drp".into(),
        _ => "err".into(),
    }
}

pub fn observe(se: &StorageEngine) -> String {
    let mut out = vec![];
    for kg in se.list_knowledge_graphs() {
        let mut rels: Vec<(String, String)> = vec![];
        if let Ok(snap) = se.get_snapshot_for(&kg) {
            let mut names: Vec<&String> = snap.input_tuples.keys().collect(); names.sort();
            for r in names {
                let mut ids: Vec<i64> = snap.input_tuples[r].iter().map(id_of).collect(); ids.sort();
                if ids.is_empty() { continue; }
                rels.push((r.clone(), format!("{}={}", enc(r), ids.iter().map(|x| x.to_string()).collect::<Vec<_>>().join("."))));
            }
        }
        rels.sort();
        out.push(format!("{}{{{}}}", enc(&kg), rels.iter().map(|x| x.1.clone()).collect::<Vec<_>>().join(",")));
    }
    if out.is_empty() { "-".into() } else { out.join(" ") }
}

pub fn apply(se: &StorageEngine, item: &str) -> String {
    let pd: Vec<String> = item.split(',').map(dec).collect();
    let p: Vec<&str> = pd.iter().map(|x| x.as_str()).collect();
    match (p[0], p.len()) {
        ("create", 2) => match se.create_knowledge_graph(p[1]) { Ok(()) => "ok".into(), Err(e) => err_code(&e) },
        ("drop", 2) => match se.drop_knowledge_graph(p[1]) { Ok(()) => "ok".into(), Err(e) => err_code(&e) },
        ("save", 2) => match se.save_knowledge_graph(p[1]) { Ok(()) => "ok".into(), Err(e) => err_code(&e) },
        ("ins", 4) => match p[3].parse::<i64>() { Ok(id) => match se.insert_tuples_into(p[1], p[2], vec![tup(id)]) { Ok((n, d)) => format!("i{n}.{d}"), Err(e) => err_code(&e) }, Err(_) => "bad".into() },
        ("del", 4) => match p[3].parse::<i64>() { Ok(id) => match se.delete_tuples_from(p[1], p[2], vec![tup(id)]) { Ok(n) => format!("d{n}"), Err(e) => err_code(&e) }, Err(_) => "bad".into() },
        _ => "bad".into(),
    }
}

fn exec_h(tail: &str) -> String {
    let root = tmpdir();
    let mut se = Some(StorageEngine::new(cfg(root.path())).unwrap());
    let mut res = vec![]; let mut obs = vec![];
    for item in tail.split(" ; ").map(|x| x.trim()).filter(|x| !x.is_empty()) {
        if item == "restart" {
            drop(se.take());
            match StorageEngine::new(cfg(root.path())) { Ok(s) => { obs.push(observe(&s)); se = Some(s); res.push("ok".to_string()); } Err(_) => return format!("{} # reopen-failed", res.join(" ")) }
        } else { res.push(apply(se.as_ref().unwrap(), item)); }
    }
    obs.push(observe(se.as_ref().unwrap()));
    format!("{} # {}", res.join(" "), obs.join(" # "))
}

pub const ACTIVE_S: [&str; 12] = ["se.insert.after_checks", "se.insert.after_time", "se.insert.after_persist",
    "se.delete.after_time", "se.delete.after_persist",
    "se.drop.after_tombstone", "se.drop.after_remove", "se.drop.after_prepare", "se.drop.after_shards",
    "se.create.after_dropping_check", "se.create.after_insert", "se.save_meta.before_write"];

fn exec_s(head: &str, tail: &str) -> String {
    let progs: Vec<Vec<String>> = match head.strip_prefix("c17.s T=") { Some(t) => t.split('/').map(|p| if p == "-" { vec![] } else { p.split('+').map(|x| x.to_string()).collect() }).collect(), None => return "bad-request".into() };
    let sched: Option<Vec<usize>> = tail.split(' ').filter(|x| !x.is_empty() && *x != ";" && *x != "|").map(|x| x.parse().ok()).collect();
    let sched = match sched { Some(s) => s, None => return "bad-request".into() };
    let root = tmpdir();
    let se = Arc::new(StorageEngine::new(cfg(root.path())).unwrap());
    // the tombstone write lock is taken while inserts hold the read guard across yield points
    // … and the metadata mutex is held across "se.save_meta.before_write"
    let sc = Sched::new(progs.len(), &ACTIVE_S, &["se.insert.after_time", "se.delete.after_time", "se.save_meta.before_write"]);
    let res: Arc<Mutex<Vec<Vec<String>>>> = Arc::new(Mutex::new(vec![vec![]; progs.len()]));
    let mut handles = vec![];
    for (t, prog) in progs.iter().cloned().enumerate() {
        let (w, se, res) = (sc.worker(t), se.clone(), res.clone());
        handles.push(std::thread::spawn(move || {
            w.enter();
            for op in prog {
                w.begin();
                let out = std::panic::catch_unwind(std::panic::AssertUnwindSafe(|| apply(&se, &op))).unwrap_or_else(|_| "panic".into());
                res.lock().unwrap()[t].push(out);
            }
            w.exit();
        }));
    }
    sc.wait_all_parked();
    let mut blocked = None;
    for (k, &t) in sched.iter().enumerate() {
        match sc.step(t) { StepResult::Arrived(_) => {}, StepResult::Finished => sc.bump(), StepResult::Blocked => { blocked = Some(k); break; } }
    }
    if blocked.is_none() {
        loop {
            let t = match sc.holder().or_else(|| sc.unfinished().first().copied()) { Some(t) => t, None => break };
            match sc.step(t) { StepResult::Arrived(_) => {}, StepResult::Finished => break, StepResult::Blocked => { blocked = Some(usize::MAX); break; } }
        }
    }
    sc.release_all();
    for h in handles { let _ = h.join(); }
    Sched::uninstall();
    if let Some(k) = blocked { return if k == usize::MAX { "blocked-in-completion".into() } else { format!("blocked {k}") }; }
    let live = observe(&se);
    let res_s = res.lock().unwrap().iter().map(|l| if l.is_empty() { "-".to_string() } else { l.join(",") }).collect::<Vec<_>>().join("/");
    drop(se);
    let after = match StorageEngine::new(cfg(root.path())) { Ok(s) => observe(&s), Err(_) => "reopen-failed".into() };
    format!("res={} live={} restart={}", res_s, live, after)
}

pub fn exec(req: &str) -> String {
    let (head, tail) = match req.split_once(" | ") { Some((h, t)) => (h, t), None => (req.trim_end_matches(" |"), "") };
    if head == "c17.h" { exec_h(tail) } else if head.starts_with("c17.s ") { exec_s(head, tail) } else { "bad-request".into() }
}

// ---------------------------------------------------------------------------------------------
/// sequential history generator state: which KGs exist, which ids each (kg, rel) holds. Inserts use
/// fresh ids and deletes only target present ids (duplicate inserts / absent deletes followed by
/// re-inserts belong to C11's sum-of-diffs defect and would only blur this property's verdict).
struct Hist { items: Vec<String>, kgs: Vec<String>, data: Vec<(String, String, Vec<i64>)>, next: i64 }
impl Hist {
    fn new() -> Hist { Hist { items: vec![], kgs: vec!["default".into()], data: vec![], next: 1 } }
    fn push(&mut self, s: String) { self.items.push(s); }
    fn create(&mut self, k: &str) { self.push(format!("create,{k}")); if !self.kgs.iter().any(|x| x == k) && !k.is_empty() { self.kgs.push(k.into()); } }
    fn drop(&mut self, k: &str) { self.push(format!("drop,{k}")); if k != "default" { self.kgs.retain(|x| x != k); self.data.retain(|d| d.0 != k); } }
    fn ins(&mut self, k: &str, r: &str) {
        let id = self.next; self.next += 1; self.push(format!("ins,{k},{r},{id}"));
        if self.kgs.iter().any(|x| x == k) {
            match self.data.iter_mut().find(|d| d.0 == k && d.1 == r) { Some(d) => d.2.push(id), None => self.data.push((k.into(), r.into(), vec![id])) }
        }
    }
    fn del_present(&mut self, ctx: &mut Ctx) -> bool {
        let c: Vec<usize> = (0..self.data.len()).filter(|&i| !self.data[i].2.is_empty()).collect();
        if c.is_empty() { return false; }
        let i = *ctx.pick(&c); let j = ctx.below(self.data[i].2.len()); let id = self.data[i].2.remove(j);
        let (k, r) = (self.data[i].0.clone(), self.data[i].1.clone());
        self.push(format!("del,{k},{r},{id}")); true
    }
    fn save_all(&mut self, ctx: &mut Ctx) { let mut ks = self.kgs.clone(); for i in (1..ks.len()).rev() { let j = ctx.below(i + 1); ks.swap(i, j); } for k in ks { self.push(format!("save,{k}")); } }
    fn line(&self) -> String { format!("c17.h | {}", self.items.join(" ; ")) }
}

fn random_history(ctx: &mut Ctx, kgs: &[&str], rels: &[&str], len: usize, save_before_restart: bool) -> String {
    let mut h = Hist::new();
    for _ in 0..len {
        match ctx.below(10) {
            0 | 1 => { let k = *ctx.pick(kgs); h.create(k); }
            2 => { let k = *ctx.pick(kgs); h.drop(k); }
            3 | 4 | 5 => { let k = if h.kgs.len() > 1 && ctx.chance(5, 6) { h.kgs[1 + ctx.below(h.kgs.len() - 1)].clone() } else { ctx.pick(kgs).to_string() }; let r = *ctx.pick(rels); h.ins(&k, r); }
            6 => { if !h.del_present(ctx) { let k = *ctx.pick(kgs); h.create(k); } }
            7 => { let k = ctx.pick(kgs).to_string(); h.push(format!("save,{k}")); }
            _ => { if save_before_restart { h.save_all(ctx); } h.push("restart".into()); }
        }
    }
    if save_before_restart { h.save_all(ctx); }
    h.push("restart".into());
    h.line()
}

fn sreq(progs: &[Vec<&str>], sched: &[usize]) -> String {
    format!("c17.s T={} | {}", progs.iter().map(|p| if p.is_empty() { "-".to_string() } else { p.join("+") }).collect::<Vec<_>>().join("/"),
        sched.iter().map(|t| t.to_string()).collect::<Vec<_>>().join(" ; "))
}
fn nominal_steps(op: &str) -> usize { if op.starts_with("create") { 4 } else if op.starts_with("drop") { 6 } else if op.starts_with("ins") { 4 } else if op.starts_with("del") { 3 } else { 1 } }

/// random interleaving by nominal step counts; a drop's two tombstone steps are not scheduled while
/// an insert/delete nominally holds the read guard (unless a blocked probe is wanted)
fn random_sched(ctx: &mut Ctx, progs: &[Vec<&str>], allow_blocked: bool) -> Vec<usize> {
    let n = progs.len();
    let mut opi = vec![0usize; n]; let mut pos = vec![0usize; n]; let mut out = vec![];
    loop {
        let live: Vec<usize> = (0..n).filter(|&t| opi[t] < progs[t].len()).collect();
        if live.is_empty() { break; }
        let holds = |t: usize| { let op = progs[t][opi[t]]; (op.starts_with("ins") && pos[t] == 2) || (op.starts_with("del") && pos[t] == 1) };
        let holds_meta = |t: usize| { let op = progs[t][opi[t]]; (op.starts_with("create") || op.starts_with("drop")) && pos[t] == 3 };
        let someone_holds = live.iter().any(|&t| holds(t));
        let meta_held = live.iter().any(|&t| holds_meta(t));
        let needs = |t: usize| { let op = progs[t][opi[t]]; op.starts_with("drop") && (pos[t] == 0 || pos[t] == 5) };
        let needs_meta = |t: usize| { let op = progs[t][opi[t]]; (op.starts_with("create") || op.starts_with("drop")) && pos[t] == 2 };
        let ok: Vec<usize> = live.iter().copied().filter(|&t| allow_blocked || !((someone_holds && needs(t)) || (meta_held && needs_meta(t)))).collect();
        let t = if ok.is_empty() { *live.iter().find(|&&t| holds(t) || holds_meta(t)).unwrap() } else { *ctx.pick(&ok) };
        out.push(t);
        pos[t] += 1;
        if pos[t] >= nominal_steps(progs[t][opi[t]]) { pos[t] = 0; opi[t] += 1; }
    }
    out
}

/// every printable ASCII punctuation character
pub const PUNCT: &str = "!\"#$%&'()*+,-./:;<=>?@[\\]^_`{|}~ ";

/// sibling families of names around one punctuation character `c`: names that differ only after it,
/// with it leading / trailing / doubled, plus the bare stem
pub fn family(stem: &str, c: char) -> Vec<String> {
    vec![stem.to_string(), format!("{stem}{c}0"), format!("{stem}{c}1"), format!("{stem}{c}"), format!("{c}{stem}"), format!("{stem}{c}0{c}1"), format!("{stem}{c}{c}0")]
}

/// KG-name alphabet: families for every punctuation character, case variants, unicode, long names
pub fn kg_alphabet() -> Vec<String> {
    let mut v: Vec<String> = vec![];
    for c in PUNCT.chars() { v.extend(family("v1", c)); }
    for n in ["Kg", "kg", "KG", "\u{e9}", "e\u{301}", "\u{540d}\u{524d}", "\u{fc}ber", "a.b.c", ".hidden", "v1.0.1", "con", "nul.json", "x.json", "x.json.tmp"] { v.push(n.to_string()); }
    v.push("a".repeat(128)); v.push(format!("{}.0", "b".repeat(126))); v.push(format!("{}.1", "b".repeat(126)));
    v.sort(); v.dedup(); v
}
pub fn rel_alphabet() -> Vec<String> {
    let mut v: Vec<String> = vec!["r".to_string()];
    for c in PUNCT.chars() { v.push(format!("r{c}0")); v.push(format!("r{c}1")); }
    v.push("R".into()); v.push("r.json".into());
    v.sort(); v.dedup(); v
}

/// T-gen: the file name the *current* code gives to a shard's metadata, observed by creating the shard
/// through `FilePersist::ensure_shard` in a fresh directory, for every shard name `kg:rel` of the alphabet
/// (KG names the API rejects are skipped). Printed as a Lean table for Props/C17.
fn tgen() -> String {
    use inputlayer::storage::persist::{FilePersist, PersistBackend, PersistConfig};
    let lit = |s: &str| -> String { format!("[{}]", s.bytes().map(|b| b.to_string()).collect::<Vec<_>>().join(", ")) };
    let mut rows = vec![];
    let probe = tmpdir();
    let se = StorageEngine::new(cfg(&probe.path().join("probe"))).unwrap();
    let kgs: Vec<String> = kg_alphabet().into_iter().filter(|k| se.create_knowledge_graph(k).is_ok()).collect();
    drop(se);
    let rels = rel_alphabet();
    for (i, k) in kgs.iter().enumerate() {
        // all relations for the first few KG names of each family would be quadratic: pair every KG name with
        // the plain relation and with the relation family of one rotating punctuation character
        let mut rs: Vec<&String> = vec![&rels[0]];
        rs.push(&rels[(2 * i + 1) % rels.len()]); rs.push(&rels[(2 * i + 2) % rels.len()]);
        for r in rs {
            let shard = format!("{k}:{r}");
            let d = tmpdir();
            let p = match FilePersist::new(PersistConfig { path: d.path().join("p"), buffer_size: 10000, durability_mode: inputlayer::DurabilityMode::Immediate, max_wal_size_bytes: 0 }) { Ok(p) => p, Err(_) => continue };
            if p.ensure_shard(&shard).is_err() { rows.push(format!("  ({}, [])", lit(&shard))); continue; }
            let mut files: Vec<String> = std::fs::read_dir(d.path().join("p/shards")).map(|rd| rd.flatten().map(|e| e.file_name().to_string_lossy().into_owned()).collect()).unwrap_or_default();
            files.sort();
            rows.push(format!("  ({}, {})", lit(&shard), lit(&files.join("|"))));
        }
    }
    // chunks of 40 rows keep Lean's elaborator away from its recursion limit
    let mut out = String::from("-- generated by `ilvh gen C17` from the current /repo — do not edit\n-- (shard name, metadata file name created by FilePersist::ensure_shard), both as UTF-8 byte lists\nnamespace ILV.Gen.C17\n");
    let chunks: Vec<&[String]> = rows.chunks(40).collect();
    for (i, c) in chunks.iter().enumerate() { out.push_str(&format!("def t{} : List (List Nat × List Nat) := [\n{}\n]\n", i, c.join(",\n"))); }
    out.push_str(&format!("def fileTable : List (List Nat × List Nat) := {}\nend ILV.Gen.C17\n", if chunks.is_empty() { "[]".to_string() } else { (0..chunks.len()).map(|i| format!("t{i}")).collect::<Vec<_>>().join(" ++ ") }));
    out
}

/// directed sibling histories: 2-3 sibling KG names of one family, each with two relations (one plain,
/// one from the same family), all saved, restart, one sibling dropped, restart; more inserts, save, restart
fn sibling_history(ctx: &mut Ctx, kgs: &[String], rels: &[String]) -> String {
    let mut h = Hist::new();
    let ek: Vec<String> = kgs.iter().map(|k| enc(k)).collect();
    let er: Vec<String> = rels.iter().map(|r| enc(r)).collect();
    for k in &ek { h.create(k); }
    for k in &ek { for r in &er { h.ins(k, r); if ctx.chance(1, 3) { h.ins(k, r); } } }
    h.save_all(ctx); h.push("restart".into());
    let victim = ek[ctx.below(ek.len())].clone();
    h.drop(&victim);
    if ctx.chance(1, 2) { h.save_all(ctx); }
    h.push("restart".into());
    for k in &ek { if *k != victim { h.ins(k, &er[0]); } }
    if ctx.chance(1, 2) { h.create(&victim); h.ins(&victim, &er[ctx.below(er.len())]); }
    h.save_all(ctx); h.push("restart".into());
    h.line()
}

pub fn gen(ctx: &mut Ctx) -> Vec<String> {
    let mut out = vec![];
    // (0) systematic name alphabet: for every printable ASCII punctuation character the sibling family
    //     {v1, v1c0, v1c1, v1c, cv1, v1c0c1, v1cc0}: all accepted members as siblings in one history (pairs and
    //     triples), relations {r, rc0, rc1}; plus case variants, unicode, long names, dotted file-like names
    for c in PUNCT.chars() {
        let fam: Vec<String> = family("v1", c).into_iter().filter(|k| !k.is_empty() && !k.contains('/') && !k.contains('\\') && !k.contains(':') && !k.contains("..") && k != ".").collect();
        let rels = vec!["r".to_string(), format!("r{c}0"), format!("r{c}1")];
        for variant in 0..ctx.budget(2, 6) {
            if fam.len() < 2 { continue; }
            let mut pick = fam.clone();
            for i in (1..pick.len()).rev() { let j = ctx.below(i + 1); pick.swap(i, j); }
            pick.truncate(if variant % 2 == 0 { 2 } else { 3 });
            let rsel: Vec<String> = if variant % 2 == 0 { rels[..2].to_vec() } else { vec![rels[1].clone(), rels[2].clone()] };
            out.push(sibling_history(ctx, &pick, &rsel)); ctx.count("seq_sibling_family");
        }
    }
    let extra: Vec<Vec<&str>> = vec![vec!["Kg", "kg", "KG"], vec!["\u{e9}", "e\u{301}"], vec!["\u{540d}\u{524d}", "\u{fc}ber", "v1"], vec!["a.b.c", "a.b", "a"],
        vec![".hidden", "hidden"], vec!["v1.0.1", "v1.0", "v1"], vec!["x.json", "x", "x.json.tmp"], vec!["con", "nul.json"]];
    for fam in &extra {
        let ks: Vec<String> = fam.iter().map(|x| x.to_string()).collect();
        for rs in [vec!["r".to_string(), "r.0".to_string()], vec!["R".to_string(), "r".to_string()]] { out.push(sibling_history(ctx, &ks, &rs)); ctx.count("seq_sibling_extra"); }
    }
    { let ks = vec![format!("{}.0", "b".repeat(126)), format!("{}.1", "b".repeat(126)), "a".repeat(128)];
      out.push(sibling_history(ctx, &ks, &["r".to_string(), "r.1".to_string()])); ctx.count("seq_sibling_extra"); }
    // (1) sequential histories, plain names
    for _ in 0..ctx.budget(250, 4000) { let len = 4 + ctx.below(9); let sv = ctx.chance(1, 2); out.push(random_history(ctx, &["a", "b", "c"], &["r", "s"], len, sv)); ctx.count("seq_plain"); }
    // (2) names whose shard files collide:  a_b:c / a:b_c,  k:p_q / k_p:q   (all KGs are saved before a restart)
    for _ in 0..ctx.budget(120, 2000) { let len = 4 + ctx.below(8); out.push(random_history(ctx, &["a_b", "a", "k"], &["c", "b_c", "r"], len, true)); ctx.count("seq_collision_names"); }
    //     directed: both colliding shards written and flushed, in either save order, with extra traffic
    let pairs: [((&str, &str), (&str, &str)); 3] = [(("a_b", "c"), ("a", "b_c")), (("k", "p_q"), ("k_p", "q")), (("a", "b_c"), ("a_b", "c"))];
    for _ in 0..ctx.budget(60, 1000) {
        let ((k1, r1), (k2, r2)) = *ctx.pick(&pairs);
        let mut h = Hist::new();
        h.create(k1); h.create(k2);
        if ctx.chance(1, 2) { h.create("z"); h.ins("z", "r"); }
        h.ins(k1, r1); if ctx.chance(1, 2) { h.ins(k1, r1); }
        h.ins(k2, r2);
        if ctx.chance(1, 3) { h.ins(k1, "r"); }
        h.save_all(ctx); h.push("restart".into());
        if ctx.chance(1, 2) { h.ins(k2, r2); h.save_all(ctx); h.push("restart".into()); }
        if ctx.chance(1, 3) { h.drop(k1); h.save_all(ctx); h.push("restart".into()); }
        out.push(h.line()); ctx.count("seq_collision_directed");
    }
    // (3) KG names containing ':'  (x:y next to x), underscore-free relation names
    for _ in 0..ctx.budget(30, 500) { let len = 4 + ctx.below(8); let sv = ctx.chance(1, 2); out.push(random_history(ctx, &["x:y", "x", "z"], &["r", "q"], len, sv)); ctx.count("seq_colon_names"); }
    // (4) deletes addressed to missing / dropped KGs
    for _ in 0..ctx.budget(60, 1000) {
        let mut h = Hist::new();
        let k = *ctx.pick(&["a", "b"]);
        if ctx.chance(2, 3) { h.create(k); h.ins(k, "r"); if ctx.chance(1, 2) { h.push(format!("save,{k}")); } h.drop(k); }
        h.push(format!("del,{k},r,{}", 1 + ctx.below(2)));
        if ctx.chance(1, 3) { h.create(k); h.ins(k, "s"); }
        h.push("restart".into());
        if ctx.chance(1, 2) { h.create(k); h.push("restart".into()); }
        out.push(h.line()); ctx.count("seq_delete_on_missing_kg");
    }
    // (5) name validation
    let long128 = "a".repeat(128); let long129 = "a".repeat(129);
    for n in ["", ".", "..", "a..b", "a/b", "a\\b", long128.as_str(), long129.as_str(), "a.b", "A", "a-b"] {
        let n = enc(n);
        out.push(format!("c17.h | create,{n} ; ins,{n},r,1 ; restart ; drop,{n} ; restart")); ctx.count("seq_name_validation");
    }
    // (6) scheduled: insert / delete / create racing with drop (+ re-create) of the same KG, then restart
    let shapes: Vec<Vec<Vec<&str>>> = vec![
        vec![vec!["create,a", "ins,a,r,1"], vec!["drop,a"]],
        vec![vec!["create,a", "create,b"], vec!["drop,a"]],
        vec![vec!["create,a", "ins,a,r,1"], vec!["drop,a", "create,a"]],
        vec![vec!["create,a", "del,a,r,1"], vec!["drop,a"]],
        vec![vec!["create,a", "ins,a,r,1", "ins,a,s,2"], vec!["drop,a"], vec!["create,b", "ins,b,r,3"]],
        vec![vec!["create,a", "ins,a,r,1"], vec!["drop,a"], vec!["create,a"]],
    ];
    let per = ctx.budget(70, 1500);
    let mut probes = ctx.budget(3, 12);
    for progs in &shapes {
        for _ in 0..per {
            let blocked = probes > 0 && ctx.chance(1, 60);
            if blocked { probes -= 1; ctx.count("blocked_probe"); }
            let mut s = random_sched(ctx, progs, blocked);
            if ctx.chance(1, 6) { let k = ctx.below(s.len() + 1); s.truncate(k); }
            out.push(sreq(progs, &s)); ctx.count("scheduled");
        }
    }
    out
}
pub const TGEN: Option<fn() -> String> = Some(tgen);
