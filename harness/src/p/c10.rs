//! C10 — session isolation: sessions' ephemeral facts/rules vs persistent writes, with the session
//! query split at its three internal reads (handler.session_query.* yield points).
//! request: `c10.run S=<#sessions> T=<programs> | t ; t ; …`
//!   programs: threads `/`, operations `,`:
//!     p+<r>.<id> / p-<r>.<id>   persistent insert / delete of tuple (id) in relation r<r>   (execute_program, no session)
//!     s<k>+<r>.<id> / s<k>-<r>.<id>   ephemeral insert / retract in session k
//!     s<k>R    add the session rule  cnt(count<X>) <- r0(X)  to session k       s<k>C  clear the session
//!     s<k>q<r> session query ?r<r>(X)          s<k>c  session query ?cnt(N)
//!   output: `res=<t0>/<t1>… fin=<persistent relations> | <per session: facts ; #rules>`
//!     res entry = ok | n<k> (count returned by insert/retract) | r<sorted ids> (query rows) | err
use crate::common::*;
use crate::u::eng::cfg;
use crate::u::sched::*;
use inputlayer::protocol::handler::Handler;
use inputlayer::protocol::wire::{QueryResult, WireValue};
use inputlayer::{Tuple, Value};
use std::sync::{Arc, Mutex};

const RULE: &str = "cnt(count<X>) <- r0(X)";

fn rows(r: &Result<QueryResult, String>) -> String {
    match r {
        Ok(q) => {
            let mut v: Vec<i64> = q.rows.iter().map(|t| match t.values.first() { Some(WireValue::Int64(n)) => *n, Some(WireValue::Int32(n)) => *n as i64, _ => -1 }).collect();
            v.sort();
            format!("r{}", v.iter().map(|x| x.to_string()).collect::<Vec<_>>().join("."))
        }
        Err(_) => "err".into(),
    }
}

pub fn exec(req: &str) -> String {
    let (head, tail) = match req.split_once(" | ") { Some((h, t)) => (h, t), None => (req.trim_end_matches(" |"), "") };
    let a: Vec<&str> = head.split(' ').collect();
    if a.len() != 3 || a[0] != "c10.run" { return "bad-request".into(); }
    let ns: usize = match a[1].strip_prefix("S=").and_then(|x| x.parse().ok()) { Some(n) => n, None => return "bad-request".into() };
    let progs: Vec<Vec<String>> = match a[2].strip_prefix("T=") { Some(t) => t.split('/').map(|p| if p == "-" { vec![] } else { p.split(',').map(|x| x.to_string()).collect() }).collect(), None => return "bad-request".into() };
    let sched: Option<Vec<usize>> = tail.split(' ').filter(|x| !x.is_empty() && *x != ";" && *x != "|").map(|x| x.parse().ok()).collect();
    let sched = match sched { Some(s) => s, None => return "bad-request".into() };

    let root = tmpdir();
    let h = match Handler::from_config(cfg(root.path())) { Ok(h) => Arc::new(h), Err(_) => return "handler-failed".into() };
    let sids: Vec<_> = (0..ns).map(|_| h.create_session("default")).collect::<Result<Vec<_>, _>>().unwrap_or_default();
    if sids.len() != ns { return "session-create-failed".into(); }
    let sids = Arc::new(sids);

    let sc = Sched::new(progs.len(), &["handler.session_query.after_clean_check", "handler.session_query.between_reads", "handler.session_query.before_snapshot"], &[]);
    let res: Arc<Mutex<Vec<Vec<String>>>> = Arc::new(Mutex::new(vec![vec![]; progs.len()]));
    let mut handles = vec![];
    for (t, prog) in progs.iter().cloned().enumerate() {
        let (w, h, res, sids) = (sc.worker(t), h.clone(), res.clone(), sids.clone());
        handles.push(std::thread::spawn(move || {
            w.enter();
            let rt = tokio::runtime::Builder::new_current_thread().enable_all().build().unwrap();
            for op in prog {
                w.begin();
                let out = std::panic::catch_unwind(std::panic::AssertUnwindSafe(|| run_op(&h, &sids, &rt, &op))).unwrap_or_else(|_| "panic".into());
                res.lock().unwrap()[t].push(out);
            }
            w.exit();
        }));
    }
    sc.wait_all_parked();
    for &t in sched.iter() { match sc.step(t) { StepResult::Arrived(_) => {}, StepResult::Finished => sc.bump(), StepResult::Blocked => break } }
    loop {
        let t = match sc.unfinished().first().copied() { Some(t) => t, None => break };
        match sc.step(t) { StepResult::Arrived(_) => {}, _ => break }
    }
    sc.release_all();
    for hd in handles { let _ = hd.join(); }
    Sched::uninstall();

    // final observation: persistent relations r0, r1 and every session's own state
    let rt = tokio::runtime::Builder::new_current_thread().enable_all().build().unwrap();
    let pers: Vec<String> = (0..2).map(|r| rows(&rt.block_on(h.execute_program(None, Some("default".into()), format!("?r{r}(X)"), None)))).collect();
    let sess: Vec<String> = sids.iter().map(|sid| {
        let (facts, nrules) = h.session_manager().with_session(sid, |s| {
            let mut f: Vec<String> = s.session_facts().iter().map(|(r, t)| format!("{}.{}", r, match t.values().first() { Some(Value::Int64(n)) => *n, _ => -1 })).collect(); f.sort();
            (f.join(","), s.rule_texts().len())
        }).unwrap_or(("gone".into(), 0));
        format!("{};{}", if facts.is_empty() { "_".to_string() } else { facts }, nrules)
    }).collect();
    let res = res.lock().unwrap();
    let res_s = res.iter().map(|l| if l.is_empty() { "-".to_string() } else { l.join(",") }).collect::<Vec<_>>().join("/");
    format!("res={} fin={} | {}", res_s, pers.join(","), if sess.is_empty() { "-".to_string() } else { sess.join(" ") })
}

fn run_op(h: &Handler, sids: &[inputlayer::session::SessionId], rt: &tokio::runtime::Runtime, op: &str) -> String {
    let tup = |id: i64| Tuple::new(vec![Value::Int64(id)]);
    let parse_rt = |s: &str| -> Option<(usize, i64)> { let (r, t) = s.split_once('.')?; Some((r.parse().ok()?, t.parse().ok()?)) };
    if let Some(x) = op.strip_prefix("p+") { if let Some((r, id)) = parse_rt(x) { return match rt.block_on(h.execute_program(None, Some("default".into()), format!("+r{r}[({id},)]"), None)) { Ok(_) => "ok".into(), Err(_) => "err".into() }; } }
    if let Some(x) = op.strip_prefix("p-") { if let Some((r, id)) = parse_rt(x) { return match rt.block_on(h.execute_program(None, Some("default".into()), format!("-r{r}[({id},)]"), None)) { Ok(_) => "ok".into(), Err(_) => "err".into() }; } }
    if let Some(x) = op.strip_prefix('s') {
        let k: usize = match x[..1].parse() { Ok(k) => k, Err(_) => return "bad".into() };
        let sid = match sids.get(k) { Some(s) => s, None => return "bad".into() };
        let y = &x[1..];
        if let Some(z) = y.strip_prefix('+') { if let Some((r, id)) = parse_rt(z) { return match h.session_insert_ephemeral(sid, &format!("r{r}"), vec![tup(id)]) { Ok(n) => format!("n{n}"), Err(_) => "err".into() }; } }
        if let Some(z) = y.strip_prefix('-') { if let Some((r, id)) = parse_rt(z) { return match h.session_retract_ephemeral(sid, &format!("r{r}"), vec![tup(id)]) { Ok(n) => format!("n{n}"), Err(_) => "err".into() }; } }
        if y == "C" { return match h.session_manager().clear_session(sid) { Ok(()) => "ok".into(), Err(_) => "err".into() }; }
        if y == "R" { return match inputlayer::parser::parse_rule(RULE) { Ok(rule) => match h.session_add_rule(sid, rule, RULE.to_string()) { Ok(()) => "ok".into(), Err(_) => "err".into() }, Err(_) => "err".into() }; }
        if y == "c" { return rows(&rt.block_on(h.query_program_with_session(sid, "?cnt(N)".into()))); }
        if let Some(r) = y.strip_prefix('q') { return rows(&rt.block_on(h.query_program_with_session(sid, format!("?r{r}(X)")))); }
    }
    "bad".into()
}

fn steps(op: &str) -> usize { if op.ends_with('c') || op.contains('q') { 4 } else { 1 } }

fn req(ns: usize, progs: &[Vec<String>], sched: &[usize]) -> String {
    format!("c10.run S={} T={} | {}", ns, progs.iter().map(|p| if p.is_empty() { "-".to_string() } else { p.join(",") }).collect::<Vec<_>>().join("/"),
        sched.iter().map(|t| t.to_string()).collect::<Vec<_>>().join(" ; "))
}

/// session thread for session `k`: inserts/retracts over ids 1..4 (the persistent writer uses the same
/// ids, so duplicates of persistent facts occur), sometimes the count rule, then queries
fn session_prog(ctx: &mut Ctx, k: usize, len: usize) -> Vec<String> {
    let mut p = vec![];
    for i in 0..len {
        let r = ctx.below(2); let x = 1 + ctx.below(4);
        p.push(match ctx.below(if i + 1 == len { 3 } else { 8 }) {
            0 => format!("s{k}q{r}"), 1 => format!("s{k}c"), 2 => format!("s{k}q0"),
            3 | 4 => format!("s{k}+{r}.{x}"), 5 => format!("s{k}+0.{x}"), 6 => format!("s{k}-{r}.{x}"), _ => format!("s{k}R"),
        });
    }
    p
}

pub fn gen(ctx: &mut Ctx) -> Vec<String> {
    let mut out = vec![];
    // (1) all interleavings (strided) of: one persistent writer x 2 ops, two sessions x 2-3 ops
    let shapes: Vec<Vec<Vec<&str>>> = vec![
        vec![vec!["p+0.1", "p+0.2"], vec!["s0+0.3", "s0q0"], vec!["s1+0.4", "s1q0"]],
        vec![vec!["p+0.1", "p-0.1"], vec!["s0+0.1", "s0R", "s0c"], vec!["s1R", "s1c"]],
        vec![vec!["p+0.1", "p+1.2"], vec!["s0+1.2", "s0q1", "s0q0"], vec!["s1+0.1", "s1-0.1", "s1q0"]],
    ];
    for sh in &shapes {
        let progs: Vec<Vec<String>> = sh.iter().map(|p| p.iter().map(|x| x.to_string()).collect()).collect();
        let counts: Vec<usize> = progs.iter().map(|p| p.iter().map(|o| steps(o)).sum()).collect();
        let all = crate::u::eng::interleavings(&counts, 200000);
        let cap = ctx.budget(70, 5000);
        let stride = (all.len() + cap - 1) / cap;
        for s in all.iter().step_by(stride.max(1)) { out.push(req(2, &progs, s)); ctx.count("enumerated"); }
    }
    // (2) random: writer (1-3 ops) + 2-3 session threads (2-4 ops each), random interleaving
    for _ in 0..ctx.budget(250, 12000) {
        let ns = 2 + ctx.below(2);
        let mut progs: Vec<Vec<String>> = vec![(0..1 + ctx.below(3)).map(|_| { let r = ctx.below(2); let x = 1 + ctx.below(4); if ctx.chance(3, 4) { format!("p+{r}.{x}") } else { format!("p-{r}.{x}") } }).collect()];
        for k in 0..ns { let len = 2 + ctx.below(3); progs.push(session_prog(ctx, k, len)); }
        let counts: Vec<usize> = progs.iter().map(|p| p.iter().map(|o| steps(o)).sum()).collect();
        let mut left = counts.clone(); let mut s = vec![];
        while left.iter().any(|&c| c > 0) { let live: Vec<usize> = (0..left.len()).filter(|&t| left[t] > 0).collect(); let t = *ctx.pick(&live); left[t] -= 1; s.push(t); }
        if ctx.chance(1, 6) { let k = ctx.below(s.len() + 1); s.truncate(k); }
        ctx.count(&format!("sessions_{ns}"));
        out.push(req(ns, &progs, &s));
    }
    // (3) sequential single-session histories (request-local path analogue): longer, with duplicates
    for _ in 0..ctx.budget(80, 3000) {
        let mut prog: Vec<String> = vec![];
        for _ in 0..(4 + ctx.below(8)) {
            let r = ctx.below(2); let x = 1 + ctx.below(3);
            prog.push(match ctx.below(9) { 0 | 1 => format!("p+{r}.{x}"), 2 => format!("p-{r}.{x}"), 3 | 4 => format!("s0+{r}.{x}"), 5 => format!("s0-{r}.{x}"), 6 => "s0R".to_string(), 7 => format!("s0q{r}"), _ => "s0c".to_string() });
        }
        ctx.count("sequential");
        out.push(req(1, &[prog], &[]));
    }
    // (4) chosen shape: the fact list of ONE session and relation under insert t / retract t / insert t again /
    //     retract all / clear, with >= 2 live tuples at the time of a partial retract; every insert/retract count is
    //     compared with the model and a scan (and count) query follows every step
    let with_queries = |ops: &[String]| -> Vec<String> { let mut p = vec![]; for o in ops { p.push(o.clone()); p.push("s0q0".to_string()); } p };
    let directed: Vec<Vec<&str>> = vec![
        vec!["s0+0.1", "s0+0.2", "s0-0.1", "s0+0.1"],                                   // partial retract, re-insert the retracted one
        vec!["s0+0.1", "s0+0.2", "s0+0.3", "s0-0.2", "s0+0.2", "s0-0.1", "s0-0.3", "s0+0.3", "s0+0.1"],
        vec!["s0+0.1", "s0+0.2", "s0-0.1", "s0-0.2", "s0+0.1", "s0+0.2"],               // retract all, re-insert
        vec!["s0+0.1", "s0+0.2", "s0-0.2", "s0C", "s0+0.2", "s0+0.1"],                   // partial retract, clear, re-insert
        vec!["s0+0.1", "s0+0.1", "s0+0.2", "s0-0.1", "s0-0.1", "s0+0.1", "s0+0.1"],     // duplicate insert / double retract around it
        vec!["s0+0.1", "s0+1.1", "s0+0.2", "s0-0.1", "s0+0.1", "s0-1.1", "s0+1.1"],     // two relations
        vec!["p+0.1", "s0+0.1", "s0+0.2", "s0-0.1", "s0+0.1", "s0R", "s0c"],             // with a persistent twin and the count rule
    ];
    for d in &directed { let ops: Vec<String> = d.iter().map(|x| x.to_string()).collect(); out.push(req(1, &[with_queries(&ops)], &[])); ctx.count("fact_list_directed"); }
    for _ in 0..ctx.budget(150, 3000) {
        // random walk over a 3-tuple domain of one relation (plus occasionally a second relation), biased to keep >= 2 live
        let mut live: Vec<(usize, usize)> = vec![]; let mut ops: Vec<String> = vec![];
        for _ in 0..(6 + ctx.below(9)) {
            let r = if ctx.chance(1, 5) { 1 } else { 0 }; let x = 1 + ctx.below(3);
            let c = ctx.below(10);
            if c < 5 || live.len() < 2 { ops.push(format!("s0+{r}.{x}")); if !live.contains(&(r, x)) { live.push((r, x)); } }
            else if c < 9 { let (r, x) = if ctx.chance(4, 5) { *ctx.pick(&live) } else { (r, x) }; ops.push(format!("s0-{r}.{x}")); live.retain(|e| *e != (r, x)); }
            else { ops.push("s0C".to_string()); live.clear(); }
        }
        let mut prog = with_queries(&ops);
        if ctx.chance(1, 3) { prog.push("s0R".into()); prog.push("s0c".into()); }
        // half of them next to a second session and a persistent writer, randomly interleaved
        if ctx.chance(1, 2) { out.push(req(1, &[prog], &[])); }
        else {
            let progs = vec![vec!["p+0.1".to_string(), "p+0.3".to_string()], prog, vec!["s1+0.2".to_string(), "s1q0".to_string(), "s1-0.2".to_string(), "s1+0.2".to_string(), "s1q0".to_string()]];
            let counts: Vec<usize> = progs.iter().map(|p| p.iter().map(|o| steps(o)).sum()).collect();
            let mut left = counts.clone(); let mut s = vec![];
            while left.iter().any(|&c| c > 0) { let lv: Vec<usize> = (0..left.len()).filter(|&t| left[t] > 0).collect(); let t = *ctx.pick(&lv); left[t] -= 1; s.push(t); }
            // session ids: thread 1 drives session 0, thread 2 session 1
            out.push(req(2, &progs, &s));
        }
        ctx.count("fact_list_random");
    }
    out.push("c10.run S=0 T=p+0.1 | 0".into());
    out.push("c10.run S=1 T=-/s0c | 1 ; 0 ; 1".into());
    out
}
pub const TGEN: Option<fn() -> String> = None;
