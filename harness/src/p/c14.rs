//! C14 — maintenance operations are invisible. One request = one history run twice on the real
//! `StorageEngine`: (A) as given under `<cfg>`, (B) the *twin*: the same writes, observations and clean
//! shutdowns without any maintenance item, under the reference configuration `b10000,w0,mi`.
//! Output: `<A tokens> || <B tokens>` (see `u/store.rs`). Restarts are clean (`shutdown` = save_all + reopen).
use crate::common::*;
use crate::u::store::*;

const DOM: [&str; 5] = ["i64:1,i64:2", "i64:1,i64:3", "i64:2,i64:2", "i64:7,i64:8", "i64:-40000,i64:123456789"];
const RELS: [&str; 2] = ["r", "s"];

pub fn is_maintenance(item: &str) -> bool {
    let k = item.split(' ').next().unwrap_or("");
    matches!(k, "save" | "savekg" | "compact" | "compactif" | "files")
}

fn history(ctx: &mut Ctx, max_writes: usize) -> String {
    let n = 3 + ctx.below(max_writes);
    let mut items: Vec<String> = vec![];
    let mut live: Vec<(usize, usize)> = vec![];
    for _ in 0..n {
        let r = if ctx.chance(2, 3) { 0 } else { 1 };
        // a write …
        match ctx.below(10) {
            0..=3 => { let t = ctx.below(DOM.len()); items.push(format!("ins {} {}", RELS[r], DOM[t])); if !live.contains(&(r, t)) { live.push((r, t)); } ctx.count("op_ins"); }
            4 => { let (a, b) = (ctx.below(DOM.len()), ctx.below(DOM.len())); items.push(format!("ins {} {} {}", RELS[r], DOM[a], DOM[b])); for t in [a, b] { if !live.contains(&(r, t)) { live.push((r, t)); } } ctx.count("op_ins_batch"); }
            5..=7 => { let pres: Vec<usize> = (0..DOM.len()).filter(|t| live.contains(&(r, *t))).collect();
                       let t = if !pres.is_empty() && ctx.chance(3, 4) { *ctx.pick(&pres) } else { ctx.below(DOM.len()) };
                       items.push(format!("del {} {}", RELS[r], DOM[t])); live.retain(|x| *x != (r, t)); ctx.count("op_del"); }
            8 => { let (a, b) = (ctx.below(DOM.len()), ctx.below(DOM.len())); items.push(format!("del {} {} {}", RELS[r], DOM[a], DOM[b])); live.retain(|x| *x != (r, a) && *x != (r, b)); ctx.count("op_del_batch"); }
            _ => { items.push("obs".into()); }
        }
        // … followed by maintenance with probability 1/2
        match ctx.below(12) {
            0 | 1 => { items.push("save".into()); ctx.count("op_save"); }
            2 => { items.push("savekg".into()); ctx.count("op_savekg"); }
            3 | 4 => { items.push("compact".into()); ctx.count("op_compact"); }
            5 => { items.push(format!("compactif {}", 1 + ctx.below(3))); ctx.count("op_compactif"); }
            6 => { items.push("files".into()); }
            7 => { items.push("shutdown".into()); ctx.count("op_shutdown_mid"); }
            _ => {}
        }
    }
    items.push("obs".into());
    items.push("shutdown".into());
    items.join(" ; ")
}

pub fn gen(ctx: &mut Ctx) -> Vec<String> {
    let mut out = vec![];
    let buffers = [1usize, 2, 3, 10000];
    let wals = [0u64, 1, 134, 268, 300];
    let modes = ["i", "b", "a"];
    let n = ctx.budget(8, 100); // histories per configuration
    for b in buffers { for w in wals { for m in modes {
        if w > 0 && b != 10000 && b != 3 { continue; } // WAL limit matters when the buffer does not flush first
        for _ in 0..n {
            // batched mode keeps WAL lines in an 8 KiB BufWriter: stay well below it (≈ 125 bytes per line)
            let h = history(ctx, if ctx.thorough { if m == "b" { 14 } else { 24 } } else { 10 });
            out.push(format!("c14.pair b{b},w{w},m{m} | {h}"));
            ctx.count(&format!("cfg_m{m}"));
        }
    } } }
    ctx.add("histories", out.len() as u64);
    out
}

pub fn exec(req: &str) -> String {
    let (head, items) = match split_hist(req) { Some(x) => x, None => return "bad-request".into() };
    if head.len() != 2 || head[0] != "c14.pair" { return "bad-request".into(); }
    let cfg = match parse_cfg(head[1]) { Some(c) => c, None => return "bad-request".into() };
    let a = run_history(&cfg, &items);
    let twin: Vec<&str> = items.iter().copied().filter(|i| !is_maintenance(i)).collect();
    let refcfg = parse_cfg("b10000,w0,mi").unwrap();
    let b = run_history(&refcfg, &twin);
    format!("{a} || {b}")
}
pub const TGEN: Option<fn() -> String> = None;
