//! C34 — programs with recursion through negation are never evaluated.
//!
//! Requests carry *abstract* rules (predicate ids, variable ids, signs); the harness renders them to
//! IQL text, sends the text through the real parser / `Handler` / `StorageEngine`, and checks that the
//! dependency edges the real parser+graph builder extract are the ones of the abstract rule (so the
//! Lean side never parses IQL).  Two request kinds:
//!
//! `c34.check <rule> <rule> …`  — pure decision on one rule set:
//!     real `validate_rules_stratification`, `stratify_with_negation`, `IQLEngine::parse` (safety),
//!     `validate_rule` per rule, and the canonical SCC partition computed by the real `find_sccs`.
//! `c34.hist | op ; op ; …`     — where the check is called: a history against one `Handler`
//!     (persistent registration via `+rule` and via `StorageEngine::register_rule_in`, drop / clear /
//!     remove-clause / drop-prefix / replace-clause, session rules, request-local rules, queries,
//!     restart). Output: one outcome token per op.
use crate::common::*;
use inputlayer::protocol::handler::Handler;
use inputlayer::protocol::wire::QueryResult;
use inputlayer::{BodyPredicate, Config, DependencyType, IQLEngine, Rule};
use std::collections::BTreeSet;

// ---------------------------------------------------------------- abstract syntax + wire codec
#[derive(Clone, PartialEq, Debug)]
pub enum Arg { V(u32), K(i64), W }
#[derive(Clone, PartialEq, Debug)]
pub struct AAtom { pub p: u32, pub args: Vec<Arg> }
#[derive(Clone, PartialEq, Debug)]
pub enum Lit { Pos(AAtom), Neg(AAtom), Cmp(char, Arg, Arg) }
#[derive(Clone, PartialEq, Debug)]
pub struct ARule { pub head: AAtom, pub body: Vec<Lit> }

fn arg_w(a: &Arg) -> String { match a { Arg::V(n) => format!("v{n}"), Arg::K(k) => format!("k{k}"), Arg::W => "_".into() } }
fn atom_w(a: &AAtom) -> String { format!("{}({})", a.p, a.args.iter().map(arg_w).collect::<Vec<_>>().join(".")) }
fn lit_w(l: &Lit) -> String {
    match l { Lit::Pos(a) => format!("+{}", atom_w(a)), Lit::Neg(a) => format!("-{}", atom_w(a)), Lit::Cmp(o, x, y) => format!("{}{}.{}", o, arg_w(x), arg_w(y)) }
}
pub fn rule_w(r: &ARule) -> String { let mut v = vec![atom_w(&r.head)]; v.extend(r.body.iter().map(lit_w)); v.join("/") }

fn arg_p(s: &str) -> Option<Arg> {
    if s == "_" { return Some(Arg::W); }
    let (k, r) = s.split_at(1);
    match k { "v" => Some(Arg::V(r.parse().ok()?)), "k" => Some(Arg::K(r.parse().ok()?)), _ => None }
}
fn atom_p(s: &str) -> Option<AAtom> {
    let s = s.strip_suffix(')')?; let (p, a) = s.split_once('(')?;
    let args = if a.is_empty() { vec![] } else { a.split('.').map(arg_p).collect::<Option<Vec<_>>>()? };
    Some(AAtom { p: p.parse().ok()?, args })
}
fn lit_p(s: &str) -> Option<Lit> {
    if s.is_empty() { return None; }
    let (k, r) = s.split_at(1);
    match k {
        "+" => Some(Lit::Pos(atom_p(r)?)), "-" => Some(Lit::Neg(atom_p(r)?)),
        "=" | "<" | "#" => { let (x, y) = r.split_once('.')?; Some(Lit::Cmp(k.chars().next()?, arg_p(x)?, arg_p(y)?)) }
        _ => None,
    }
}
pub fn rule_p(s: &str) -> Option<ARule> {
    let mut it = s.split('/'); let head = atom_p(it.next()?)?;
    let body = it.map(lit_p).collect::<Option<Vec<_>>>()?;
    if body.is_empty() { return None; }
    Some(ARule { head, body })
}

// ---------------------------------------------------------------- rendering to IQL
fn pname(p: u32) -> String { format!("p{p}") }
fn arg_t(a: &Arg) -> String { match a { Arg::V(n) => format!("V{n}"), Arg::K(k) => format!("{k}"), Arg::W => "_".into() } }
fn atom_t(a: &AAtom) -> String { format!("{}({})", pname(a.p), a.args.iter().map(arg_t).collect::<Vec<_>>().join(", ")) }
fn lit_t(l: &Lit) -> String {
    match l {
        Lit::Pos(a) => atom_t(a), Lit::Neg(a) => format!("!{}", atom_t(a)),
        Lit::Cmp(o, x, y) => format!("{} {} {}", arg_t(x), match o { '=' => "=", '<' => "<", _ => "!=" }, arg_t(y)),
    }
}
pub fn rule_t(r: &ARule) -> String { format!("{} <- {}", atom_t(&r.head), r.body.iter().map(lit_t).collect::<Vec<_>>().join(", ")) }

/// signed edges of an abstract rule: (head, body pred, negative?)
fn edges_of(r: &ARule) -> Vec<(u32, u32, bool)> {
    r.body.iter().filter_map(|l| match l { Lit::Pos(a) => Some((r.head.p, a.p, false)), Lit::Neg(a) => Some((r.head.p, a.p, true)), _ => None }).collect()
}
fn pid(name: &str) -> Option<u32> { name.strip_prefix('p')?.parse().ok() }

/// parse the rendered text with the real parser and confirm that the real dependency-graph builder
/// sees exactly the abstract rule's signed edges (as a multiset, in order).
fn parse_checked(r: &ARule) -> Result<Rule, String> {
    let rule = inputlayer::parse_rule(&rule_t(r)).map_err(|e| format!("parse:{e}"))?;
    let mut real = vec![];
    for b in &rule.body {
        match b {
            BodyPredicate::Positive(a) => real.push((pid(&rule.head.relation), pid(&a.relation), false)),
            BodyPredicate::Negated(a) => real.push((pid(&rule.head.relation), pid(&a.relation), true)),
            _ => {}
        }
    }
    let want: Vec<_> = edges_of(r).into_iter().map(|(a, b, n)| (Some(a), Some(b), n)).collect();
    if real != want { return Err("abstract-mismatch".into()); }
    Ok(rule)
}

// ---------------------------------------------------------------- c34.check
fn classify_err(e: &str) -> String {
    let k = if e.contains("VALIDATION_ERROR") || e.contains("alidation error") { "parse" }
        else if e.contains("negates itself (!") { "selfneg" }
        else if e.contains("Unstratified negation") { "unstrat" }
        else if e.contains("Unsafe negation in rule") { "unsafe_neg" }
        else if e.contains("Unsafe rule '") { "unsafe_head" }
        else if e.contains("Unsafe rule:") { "unsafe_engine" }
        else if e.contains("Arity mismatch") { "arity" }
        else if e.contains("does not exist") { "nf" }
        else if e.contains("out of bounds") { "oob" }
        else if e.starts_with("Rule '") && e.contains("not found") { "nf" }
        else { return format!("err:other:{}", e.chars().take(200).collect::<String>().replace(' ', "_")); };
    format!("err:{k}")
}

fn exec_check(rules: &[ARule]) -> String {
    let mut parsed = vec![];
    for r in rules { match parse_checked(r) { Ok(x) => parsed.push(x), Err(e) => return e } }
    let strat = match inputlayer::validate_rules_stratification(&parsed) { Ok(()) => "ok".to_string(), Err(e) => classify_err(&e) };
    let prog = inputlayer::Program { rules: parsed.clone() };
    let swn = if inputlayer::stratify_with_negation(&prog).is_success() { "ok" } else { "ns" };
    // the silent fallback: `stratify` always returns strata covering every rule
    let strata = inputlayer::stratify(&prog);
    let covered: usize = strata.iter().map(|s| s.len()).sum();
    let fallback = if covered == parsed.len() { "cover" } else { "lost" };
    let text: String = rules.iter().map(|r| rule_t(r) + "\n").collect();
    let eng = match IQLEngine::new().parse(&text) { Ok(_) => "ok".to_string(), Err(e) => classify_err(&e) };
    let per: Vec<String> = parsed.iter().map(|r| match inputlayer::validate_rule(r, &r.head.relation) { Ok(()) => "ok".to_string(), Err(e) => classify_err(&e) }).collect();
    // real SCC partition, canonical: each class sorted, classes sorted
    let g = inputlayer::build_extended_dependency_graph(&prog);
    // negative-edge sanity: the typed graph must carry the same signs
    for r in rules { for (h, b, n) in edges_of(r) {
        let ok = g.edges.get(&pname(h)).map_or(false, |v| v.iter().any(|(t, d)| *t == pname(b) && (*d == DependencyType::Negative) == n));
        if !ok { return "abstract-mismatch".into(); }
    } }
    let sccs = inputlayer::find_sccs(&g.to_simple_graph());
    let mut classes: Vec<Vec<u32>> = sccs.iter().map(|c| { let mut v: Vec<u32> = c.iter().filter_map(|n| pid(n)).collect(); v.sort(); v }).collect();
    classes.sort();
    let part = classes.iter().map(|c| c.iter().map(|x| x.to_string()).collect::<Vec<_>>().join(",")).collect::<Vec<_>>().join("|");
    format!("{strat} {swn} {fallback} {eng} {} {}", per.join(","), if part.is_empty() { "-".into() } else { part })
}

// ---------------------------------------------------------------- c34.hist
fn rt() -> &'static tokio::runtime::Runtime {
    static RT: std::sync::OnceLock<tokio::runtime::Runtime> = std::sync::OnceLock::new();
    RT.get_or_init(|| tokio::runtime::Builder::new_multi_thread().worker_threads(2).enable_all().build().unwrap())
}
fn cfg(d: &std::path::Path) -> Config {
    let mut c = Config::default(); c.storage.data_dir = d.to_path_buf(); c.storage.performance.num_threads = 1; c
}
const KG: &str = "default";

fn outcome(r: Result<QueryResult, String>) -> String {
    match r {
        Err(e) => classify_err(&e),
        Ok(q) => {
            if q.schema.len() == 1 && q.schema[0].name == "message" {
                let msgs: Vec<String> = q.rows.iter().filter_map(|t| match t.values.first() { Some(inputlayer::protocol::wire::WireValue::String(s)) => Some(s.clone()), _ => None }).collect();
                let last = msgs.last().cloned().unwrap_or_default();
                if last.contains("registered.") || last.contains("dropped.") || last.contains("cleared.") || last.contains("removed from rule")
                    || last.contains("(last clause removed)") || last.contains("Session rule added") || last.starts_with("Dropped ") || last.starts_with("Cleared ") { "ok".into() }
                else if last.starts_with("No rules matching prefix") { "none".into() }
                else { classify_err(&last) }
            } else { "eval".into() }
        }
    }
}

struct World { dir: tempfile::TempDir, h: Option<Handler>, sid: String }
impl World {
    fn open(dir: tempfile::TempDir) -> Result<World, String> {
        let h = Handler::from_config(cfg(dir.path()))?;
        let sid = h.create_session(KG)?;
        Ok(World { dir, h: Some(h), sid })
    }
    fn h(&self) -> &Handler { self.h.as_ref().unwrap() }
    fn run(&self, session: bool, text: String) -> Result<QueryResult, String> {
        let h = self.h();
        if session { rt().block_on(h.execute_program(Some(&self.sid), None, text, None)) }
        else { rt().block_on(h.execute_program(None, Some(KG.to_string()), text, None)) }
    }
    fn restart(&mut self) -> Result<(), String> {
        self.h = None; // drop the handler (and its storage engine) before reopening the directory
        let h = Handler::from_config(cfg(self.dir.path()))?;
        self.sid = h.create_session(KG)?;
        self.h = Some(h);
        Ok(())
    }
}

fn qtext(p: u32, arity: usize) -> String { format!("?{}({})", pname(p), (0..arity).map(|i| format!("X{i}")).collect::<Vec<_>>().join(", ")) }
/// arity convention of the generator: predicate 1 is binary, all others unary
pub fn arity_of(p: u32) -> usize { if p == 1 { 2 } else { 1 } }

fn exec_hist(items: &[&str]) -> String {
    // tmpfs when available: the catalog/WAL writes of a history are fsync-bound on the root disk
    let dir = if std::path::Path::new("/dev/shm").is_dir() { tempfile::Builder::new().prefix("ilvh-c34-").tempdir_in("/dev/shm") } else { tempfile::TempDir::new() };
    let dir = match dir { Ok(d) => d, Err(_) => return "io".into() };
    let mut w = match World::open(dir) { Ok(w) => w, Err(e) => return format!("open-failed:{e}") };
    // base data for the two EDB predicates
    for t in ["+p0[(1,), (2,), (3,)]", "+p1[(1, 2), (2, 3)]"] { if let Err(e) = w.run(false, t.into()) { return format!("setup-failed:{e}"); } }
    let mut out = vec![];
    for it in items {
        let f: Vec<&str> = it.split(' ').filter(|s| !s.is_empty()).collect();
        if f.is_empty() { continue; }
        let rules_from = |k: usize| -> Result<Vec<ARule>, String> { f[k..].iter().map(|s| rule_p(s).ok_or_else(|| "bad-request".to_string())).collect() };
        let checked = |rs: &[ARule]| -> Result<(), String> { for r in rs { parse_checked(r)?; } Ok(()) };
        let num = |k: usize| -> Result<u32, String> { f.get(k).and_then(|s| s.parse().ok()).ok_or_else(|| "bad-request".to_string()) };
        let o: Result<String, String> = (|| Ok(match f[0] {
            "P" => { let rs = rules_from(1)?; checked(&rs)?; outcome(w.run(false, format!("+{}", rule_t(&rs[0])))) }
            "R" => {
                let rs = rules_from(1)?; checked(&rs)?;
                let def = inputlayer::statement::parse_rule_definition(&rule_t(&rs[0])).map_err(|e| format!("parse:{e}"))?;
                let st = w.h().get_storage();
                match st.register_rule_in(KG, &def) { Ok(_) => "ok".into(), Err(e) => classify_err(&e.to_string()) }
            }
            "E" => {
                let (p, i) = (num(1)?, num(2)?); let rs = rules_from(3)?; checked(&rs)?;
                let rule = inputlayer::parse_rule(&rule_t(&rs[0])).map_err(|e| format!("parse:{e}"))?;
                let ser = inputlayer::statement::SerializableRule::from_rule(&rule);
                let mut st = w.h().get_storage_mut();
                match st.replace_rule_in(KG, &pname(p), i as usize, ser) { Ok(()) => "ok".into(), Err(e) => classify_err(&e.to_string()) }
            }
            "D" => outcome(w.run(false, format!(".rule drop {}", pname(num(1)?)))),
            "X" => outcome(w.run(false, format!(".rule drop prefix p{}", f.get(1).copied().unwrap_or("")))),
            "C" => outcome(w.run(false, format!(".rule clear {}", pname(num(1)?)))),
            "M" => outcome(w.run(false, format!(".rule remove {} {}", pname(num(1)?), num(2)?))),
            "S" => { let rs = rules_from(1)?; checked(&rs)?; outcome(w.run(true, rule_t(&rs[0]))) }
            "SC" => outcome(w.run(true, ".session clear".into())),
            "QS" => { let p = num(1)?; outcome(w.run(true, qtext(p, arity_of(p)))) }
            "QN" => { let p = num(1)?; outcome(w.run(false, qtext(p, arity_of(p)))) }
            "QL" => {
                let p = num(1)?; let rs = rules_from(2)?; checked(&rs)?;
                let mut t: String = rs.iter().map(|r| rule_t(r) + "\n").collect(); t.push_str(&qtext(p, arity_of(p)));
                outcome(w.run(false, t))
            }
            "T" => { w.restart()?; "ok".into() }
            _ => return Err("bad-request".into()),
        }))();
        match o { Ok(s) => out.push(s), Err(e) => return e }
    }
    if out.is_empty() { "-".into() } else { out.join(" ") }
}

pub fn exec(req: &str) -> String {
    let (op, rest) = req.split_once(' ').unwrap_or((req, ""));
    match op {
        "c34.check" => {
            let rs: Option<Vec<ARule>> = rest.split(' ').filter(|s| !s.is_empty()).map(rule_p).collect();
            match rs { Some(r) => exec_check(&r), None => "bad-request".into() }
        }
        "c34.hist" => {
            let tail = match rest.split_once("| ") { Some((_, t)) => t, None => return "bad-request".into() };
            let items: Vec<&str> = tail.split(" ; ").collect();
            exec_hist(&items)
        }
        _ => "bad-request".into(),
    }
}

// ---------------------------------------------------------------- generators
const IDB: [u32; 4] = [2, 3, 4, 5];

fn atom1(p: u32, v: u32) -> AAtom { if arity_of(p) == 2 { AAtom { p, args: vec![Arg::V(v), Arg::W] } } else { AAtom { p, args: vec![Arg::V(v)] } } }
/// `h(V0) <- p0(V0), [!]b(V0)` — the plain safe clause carrying one signed edge h → b
fn edge_rule(h: u32, b: u32, neg: bool) -> ARule {
    ARule { head: AAtom { p: h, args: vec![Arg::V(0)] }, body: vec![Lit::Pos(atom1(0, 0)), if neg { Lit::Neg(atom1(b, 0)) } else { Lit::Pos(atom1(b, 0)) }] }
}
/// a random clause for head `h` over predicates 0..=5: 1–3 signed atoms, optional comparison,
/// mostly safe; `spoil` chooses a defect (unsafe head var, unsafe negated var, self negation).
fn random_rule(ctx: &mut Ctx, h: u32, spoil: bool, evaluable: bool) -> ARule {
    let mut body = vec![];
    let guard = *ctx.pick(&[0u32, 0, 0, 1]);
    body.push(Lit::Pos(atom1(guard, 0)));
    let n = 1 + ctx.below(3);
    for _ in 0..n {
        let b = *ctx.pick(&[0u32, 1, 2, 3, 4, 5, 2, 3, 4, 5]);
        let neg = ctx.chance(2, 5);
        body.push(if neg { Lit::Neg(atom1(b, 0)) } else { Lit::Pos(atom1(b, 0)) });
    }
    let mut head = AAtom { p: h, args: vec![Arg::V(0)] };
    match ctx.below(8) {
        0 => body.push(Lit::Cmp('<', Arg::V(0), Arg::K(ctx.range(0, 3)))),
        1 => { body.push(Lit::Cmp('=', Arg::V(1), Arg::K(ctx.range(1, 3)))); body.push(Lit::Cmp('#', Arg::V(0), Arg::V(1))); }
        2 => { body.push(Lit::Cmp('=', Arg::V(1), Arg::V(0))); head.args = vec![Arg::V(1)]; }   // head var bound only through an equality chain
        // needs two sweeps of the binding loop; `validate_rule`/`is_safe` accept it, the IR builder does not
        // ("Variable V2 not found in schema"), so it is used only where nothing is evaluated
        3 if !evaluable => { body.push(Lit::Cmp('=', Arg::V(2), Arg::V(1))); body.push(Lit::Cmp('=', Arg::V(1), Arg::V(0))); head.args = vec![Arg::V(2)]; }
        _ => {}
    }
    if spoil {
        match ctx.below(4) {
            0 => head.args = vec![Arg::V(7)],                                   // unsafe head
            1 => body.push(Lit::Neg(AAtom { p: *ctx.pick(&IDB), args: vec![Arg::V(8)] })), // unsafe negation (may also be self-negation)
            2 => body.push(Lit::Neg(AAtom { p: h, args: vec![Arg::V(0)] })),       // self negation
            _ => { body.push(Lit::Cmp('<', Arg::V(9), Arg::V(0))); head.args = vec![Arg::V(9)]; } // `<` binds nothing
        }
    }
    if arity_of(h) == 2 { head.args.push(Arg::K(0)); }
    ARule { head, body }
}

fn shuffle<T>(ctx: &mut Ctx, v: &mut Vec<T>) { for i in (1..v.len()).rev() { let j = ctx.below(i + 1); v.swap(i, j); } }

/// a rule set whose IDB graph is one cycle of length `len` through `IDB[..len]` with the given signs,
/// plus `extra` random edges that may or may not touch the cycle.
fn cycle_rules(ctx: &mut Ctx, len: usize, negs: &[bool], extra: usize) -> Vec<ARule> {
    let mut ids = IDB.to_vec(); shuffle(ctx, &mut ids);
    let mut rs = vec![];
    for i in 0..len { rs.push(edge_rule(ids[i], ids[(i + 1) % len], negs[i])); }
    for _ in 0..extra { let (a, b) = (*ctx.pick(&ids), *ctx.pick(&[0u32, 2, 3, 4, 5])); rs.push(edge_rule(a, b, ctx.chance(1, 3))); }
    shuffle(ctx, &mut rs);
    rs
}

fn gen_check(ctx: &mut Ctx, out: &mut Vec<String>) {
    let line = |rs: &[ARule]| format!("c34.check {}", rs.iter().map(rule_w).collect::<Vec<_>>().join(" "));
    // (1) exhaustive: every signed graph on 2 IDB nodes (4 ordered pairs incl. loops x {absent,+,-} = 81),
    //     thorough: every signed loop-free graph on 3 nodes (6 pairs -> 729) and with loops on 3 nodes sampled
    let pairs2: Vec<(u32, u32)> = vec![(2, 2), (2, 3), (3, 2), (3, 3)];
    for code in 0..81u32 {
        let mut c = code; let mut rs = vec![];
        for (a, b) in &pairs2 { match c % 3 { 1 => rs.push(edge_rule(*a, *b, false)), 2 => rs.push(edge_rule(*a, *b, true)), _ => {} } c /= 3; }
        if !rs.is_empty() { out.push(line(&rs)); ctx.count("check_exhaustive2"); }
    }
    let pairs3: Vec<(u32, u32)> = vec![(2, 3), (3, 2), (2, 4), (4, 2), (3, 4), (4, 3)];
    let n3 = if ctx.thorough { 729 } else { 0 };
    for code in 0..n3 {
        let mut c = code; let mut rs = vec![];
        for (a, b) in &pairs3 { match c % 3 { 1 => rs.push(edge_rule(*a, *b, false)), 2 => rs.push(edge_rule(*a, *b, true)), _ => {} } c /= 3; }
        if !rs.is_empty() { out.push(line(&rs)); ctx.count("check_exhaustive3"); }
    }
    // (2) chosen shapes: cycles of every length with 0, 1, all negative edges, with and without chords
    for len in 1..=4usize { for pat in 0..3 { for extra in [0usize, 2, 4] { for _ in 0..ctx.budget(3, 12) {
        let negs: Vec<bool> = (0..len).map(|i| match pat { 0 => false, 1 => i == 0, _ => true }).collect();
        let rs = cycle_rules(ctx, len, &negs, extra); out.push(line(&rs)); ctx.count("check_cycle_shape");
    } } } }
    // (3) negative edge next to, into and out of a positive cycle (stratifiable unless a chord closes it)
    for _ in 0..ctx.budget(60, 400) {
        let mut rs = vec![edge_rule(2, 3, false), edge_rule(3, 2, false)];
        match ctx.below(4) { 0 => rs.push(edge_rule(4, 2, true)), 1 => rs.push(edge_rule(2, 4, true)), 2 => { rs.push(edge_rule(2, 4, true)); rs.push(edge_rule(4, 5, false)); rs.push(edge_rule(5, 3, ctx.chance(1, 2))); } _ => { rs.push(edge_rule(4, 5, true)); rs.push(edge_rule(5, 4, false)); } }
        shuffle(ctx, &mut rs); out.push(line(&rs)); ctx.count("check_neg_near_cycle");
    }
    // (4) random rule sets, multi-literal bodies, comparisons, ~15% defective clauses
    for _ in 0..ctx.budget(1200, 12000) {
        let n = 1 + ctx.below(6);
        let rs: Vec<ARule> = (0..n).map(|_| { let h = *ctx.pick(&[2u32, 3, 4, 5, 2, 3, 0]); let sp = ctx.chance(3, 20); random_rule(ctx, h, sp, false) }).collect();
        out.push(line(&rs)); ctx.count("check_random");
    }
}

fn gen_hist(ctx: &mut Ctx, out: &mut Vec<String>) {
    let w = rule_w;
    // (a) the split: a rule set (cycle shapes as above) divided arbitrarily between persistent, session and
    //     request-local rules; queries on every head through every path
    for _ in 0..ctx.budget(260, 2500) {
        let len = 1 + ctx.below(4);
        let pat = ctx.below(4);
        let negs: Vec<bool> = (0..len).map(|i| match pat { 0 => false, 1 | 2 => i == 0, _ => ctx.chance(1, 2) }).collect();
        let rs = if len == 1 && negs[0] { let mut r = cycle_rules(ctx, 2, &[true, false], 1); r.truncate(3); r } else { let ex = ctx.below(3); cycle_rules(ctx, len, &negs, ex) };
        let mut items = vec![]; let mut locals = vec![]; let mut heads = BTreeSet::new();
        for r in &rs {
            heads.insert(r.head.p);
            match ctx.below(5) { 0 | 1 => items.push(format!("P {}", w(r))), 2 => items.push(format!("R {}", w(r))), 3 => items.push(format!("S {}", w(r))), _ => locals.push(w(r)) }
        }
        let heads: Vec<u32> = heads.into_iter().collect();
        let q = *ctx.pick(&heads);
        items.push(format!("QS {q}")); items.push(format!("QN {}", ctx.pick(&heads)));
        if !locals.is_empty() || ctx.chance(1, 3) { items.push(format!("QL {q} {}", locals.join(" ")).trim_end().to_string()); }
        if ctx.chance(1, 3) { items.push("T".into()); items.push(format!("QS {q}")); items.push(format!("QN {q}")); }
        if ctx.chance(1, 4) { items.push("SC".into()); items.push(format!("QS {q}")); }
        out.push(format!("c34.hist | {}", items.join(" ; "))); ctx.count("hist_split");
    }
    // (b) catalog life cycle: close a negative cycle (rejected), remove the blocker in every supported way, retry
    for _ in 0..ctx.budget(120, 1200) {
        let mut ids = IDB.to_vec(); shuffle(ctx, &mut ids); let (a, b, c) = (ids[0], ids[1], ids[2]);
        let mut items = vec![format!("P {}", w(&edge_rule(a, b, true))), format!("P {}", w(&edge_rule(b, c, false)))];
        if ctx.chance(1, 2) { items.push(format!("P {}", w(&edge_rule(b, 0, false)))); }
        let closing = edge_rule(c, a, ctx.chance(1, 2));
        items.push(format!("P {}", w(&closing)));                      // rejected
        items.push(format!("QN {a}"));
        match ctx.below(6) {
            0 => items.push(format!("D {b}")), 1 => items.push(format!("C {b}")), 2 => items.push(format!("M {b} 1")),
            3 => items.push(format!("X {b}")), 4 => items.push(format!("D {a}")), _ => items.push(format!("M {b} {}", ctx.below(4))),
        }
        items.push(format!("{} {}", ctx.pick(&["P", "R"]), w(&closing)));        // accepted iff the cycle is gone
        items.push(format!("QN {c}"));
        if ctx.chance(1, 2) { items.push(format!("P {}", w(&edge_rule(b, c, false)))); items.push(format!("QN {b}")); } // re-adding may be rejected now
        if ctx.chance(1, 3) { items.push("T".into()); items.push(format!("P {}", w(&edge_rule(a, b, true)))); items.push(format!("QN {a}")); }
        if ctx.chance(1, 4) { items.push("X".into()); items.push(format!("QN {a}")); }
        out.push(format!("c34.hist | {}", items.join(" ; "))); ctx.count("hist_lifecycle");
    }
    // (c) the unchecked API path: replace a clause so that the stored catalog itself becomes unstratifiable
    for _ in 0..ctx.budget(80, 800) {
        let mut ids = IDB.to_vec(); shuffle(ctx, &mut ids); let (a, b) = (ids[0], ids[1]);
        let mut items = vec![format!("P {}", w(&edge_rule(a, b, true))), format!("P {}", w(&edge_rule(b, 0, false)))];
        let repl = match ctx.below(4) { 0 => edge_rule(b, a, true), 1 => edge_rule(b, a, false), 2 => edge_rule(b, b, true), _ => edge_rule(b, 0, true) };
        items.push(format!("E {b} {} {}", ctx.below(2), w(&repl)));
        items.push(format!("QN {a}"));
        if ctx.chance(1, 2) { items.push("T".into()); items.push(format!("QN {b}")); }
        items.push(format!("P {}", w(&edge_rule(ids[2], 0, false))));  // any registration now meets the whole catalog
        if ctx.chance(1, 2) { items.push(format!("D {b}")); items.push(format!("P {}", w(&edge_rule(ids[2], 0, false)))); items.push(format!("QN {a}")); }
        out.push(format!("c34.hist | {}", items.join(" ; "))); ctx.count("hist_replace");
    }
    // (d) malformed stream: defective clauses through every path, arity clashes, wrong indices, unknown names
    for _ in 0..ctx.budget(120, 1200) {
        let mut items = vec![];
        let h = *ctx.pick(&IDB);
        let good = random_rule(ctx, h, false, true);
        let bad = random_rule(ctx, h, true, true);
        items.push(format!("{} {}", ctx.pick(&["P", "R", "S"]), w(&good)));
        items.push(format!("{} {}", ctx.pick(&["P", "R", "S"]), w(&bad)));
        items.push(format!("QL {h} {}", w(&bad)));
        items.push(format!("QL {h} {} {}", w(&good), w(&bad)));
        let mut wide = good.clone(); wide.head.args.push(Arg::K(1));
        if items[0].starts_with('S') { items.push(format!("S {}", w(&wide))); } else { items.push(format!("P {}", w(&wide))); }
        items.push(format!("QL {h} {} {}", w(&good), w(&wide)));
        items.push(format!("D {}", ctx.pick(&[6u32, 7])));
        items.push(format!("M {h} {}", ctx.pick(&[0u32, 1, 2, 9])));
        items.push(format!("E {} {} {}", ctx.pick(&[h, 7]), ctx.below(3), w(&bad)));    // replace accepts even unsafe clauses
        items.push(format!("QN {h}")); items.push(format!("QS {h}"));
        out.push(format!("c34.hist | {}", items.join(" ; "))); ctx.count("hist_malformed");
    }
    // (e) random histories over a small pool of clauses
    for _ in 0..ctx.budget(420, 4000) {
        let pool: Vec<ARule> = (0..5).map(|_| { let h = *ctx.pick(&IDB); let sp = ctx.chance(1, 10); if ctx.chance(1, 2) { edge_rule(h, *ctx.pick(&IDB), ctx.chance(1, 2)) } else { random_rule(ctx, h, sp, true) } }).collect();
        let n = 4 + ctx.below(8); let mut items = vec![];
        for _ in 0..n {
            let r = ctx.pick(&pool).clone(); let p = *ctx.pick(&IDB);
            items.push(match ctx.below(16) {
                0 | 1 | 2 => format!("P {}", w(&r)), 3 => format!("R {}", w(&r)), 4 | 5 => format!("S {}", w(&r)),
                6 => format!("QS {p}"), 7 => format!("QN {p}"), 8 => format!("QL {p} {}", w(&r)),
                9 => format!("QL {p} {} {}", w(&r), w(ctx.pick(&pool))),
                10 => format!("D {p}"), 11 => format!("C {p}"), 12 => format!("M {p} {}", 1 + ctx.below(2)),
                13 => format!("E {p} {} {}", ctx.below(2), w(&r)), 14 => (if ctx.chance(1, 2) { "SC" } else { "T" }).to_string(),
                _ => format!("X {}", ctx.pick(&["", "2", "3", "4", "5"])).trim_end().to_string(),
            });
        }
        let p = *ctx.pick(&IDB); items.push(format!("QS {p}")); items.push(format!("QN {p}"));
        out.push(format!("c34.hist | {}", items.join(" ; "))); ctx.count("hist_random");
    }
}

pub fn gen(ctx: &mut Ctx) -> Vec<String> {
    let mut out = vec![];
    gen_check(ctx, &mut out);
    gen_hist(ctx, &mut out);
    out
}
pub const TGEN: Option<fn() -> String> = None;
