//! C13 — acknowledged writes survive any crash and recovery always succeeds (Immediate durability).
//! One request = one history of engine operations on shards `<kg>:<relation>` of KGs v1.0 / v1.1 (names with dots) with crashes at chosen
//! `fs_point` labels (`persist.*` / `wal.*`), optionally tearing the data written by that step, and crashes inside
//! the recovery itself.  Every image is a copy of the real data directory taken inside the `fs_point` callback;
//! recovery is the real `StorageEngine::new`.
use crate::common::*;
use crate::u::crashfs::{self, Cb};
use inputlayer::{Config, StorageEngine, Tuple, Value};
use std::path::{Path, PathBuf};

const KGS: [&str; 3] = ["default", "v1.0", "v1.1"];
const PREFIXES: [&str; 2] = ["persist.", "wal."];

fn tuple(id: u64) -> Tuple {
    // ids with id % 4 == 1 carry a multi-byte character (mirrors `multibyte` in lean/ILV/Model/Persist.lean)
    let s = if id % 4 == 1 { format!("\u{e9}{id}") } else { format!("a{id}") };
    Tuple::new(vec![Value::Int64(id as i64), Value::string(&s)])
}
fn tuple_id(t: &Tuple) -> String { match t.values().first() { Some(Value::Int64(n)) => n.to_string(), _ => "?".into() } }

fn open(dir: &Path, b: usize) -> Result<StorageEngine, String> {
    let mut c = Config::default();
    c.storage.data_dir = dir.to_path_buf();
    c.storage.performance.num_threads = 1;
    c.storage.persist.buffer_size = b;
    c.storage.persist.durability_mode = inputlayer::DurabilityMode::Immediate;
    c.storage.persist.max_wal_size_bytes = 0;
    StorageEngine::new(c).map_err(|e| format!("{e}"))
}

/// every non-empty relation of every knowledge graph as `<kg>:<rel>=<ids>`, sorted by shard name
fn visible(eng: &StorageEngine) -> String {
    let mut rels: Vec<(String, Vec<u64>)> = vec![];
    for kg in eng.list_knowledge_graphs() {
        match eng.get_rules_and_data(&kg) {
            Ok((_, data)) => for (k, v) in data.iter().filter(|(_, v)| !v.is_empty()) {
                let mut ids: Vec<u64> = v.iter().map(|t| tuple_id(t).parse().unwrap_or(u64::MAX)).collect(); ids.sort();
                rels.push((format!("{kg}:{k}"), ids));
            },
            Err(e) => return format!("err:visible:{e}"),
        }
    }
    rels.sort();
    if rels.is_empty() { "-".into() } else {
        rels.iter().map(|(k, v)| format!("{}={}", k, v.iter().map(|i| i.to_string()).collect::<Vec<_>>().join("."))).collect::<Vec<_>>().join(";")
    }
}
fn split_shard(s: &str) -> Option<(&str, &str)> { s.split_once(':') }

fn lbl_char(l: &str) -> char {
    match l {
        "persist.new.mkdir" => 'a', "wal.new.mkdir" => 'b',
        "persist.orphans.unlink_batch" => 'c', "persist.orphans.unlink_tmp" => 'd', "persist.orphans.dirsync" => 'e',
        "persist.meta.tmpwrite" => 'f', "persist.meta.fsync" => 'g', "persist.meta.rename" => 'h',
        "persist.batch.tmpwrite" => 'i', "persist.batch.fsync" => 'j', "persist.batch.rename" => 'k',
        "persist.compact.unlink_old" => 'l', "persist.compact.dirsync" => 'm',
        "persist.delete.unlink_batch" => 'n', "persist.delete.dirsync_batches" => 'o', "persist.delete.unlink_meta" => 'p', "persist.delete.dirsync_shards" => 'q',
        "wal.open" => 'r', "wal.append.write" => 's', "wal.append.fsync" => 't', "wal.sync.write" => 'u', "wal.sync.fsync" => 'v',
        "wal.rewrite.unlink" => 'w', "wal.rewrite.tmpwrite" => 'x', "wal.rewrite.fsync" => 'y', "wal.rewrite.rename" => 'z',
        "wal.archives.unlink_new" => 'A',
        _ => '?',
    }
}
fn steps(labels: &[String]) -> String { if labels.is_empty() { "-".into() } else { labels.iter().map(|l| lbl_char(l)).collect() } }

fn new_cb(live: &Path, img: &Path, target: usize) -> Cb {
    let mut cb = Cb::new(PREFIXES.to_vec(), live, img, target);
    cb.order_dir = Some(live.join("persist/shards"));
    cb
}
/// observed shard order of a multi-shard loop: relation names in the order their metadata was renamed into place
fn order(cb: &Cb) -> String {
    cb.order.join("+")
}

fn ids(s: &str) -> Option<Vec<Tuple>> { s.split(',').map(|x| x.parse::<u64>().ok().map(tuple)).collect() }

fn run_op(eng: &mut StorageEngine, t: &[&str]) -> Option<bool> {
    Some(match t {
        ["i", r, ts] => { let (kg, rel) = split_shard(r)?; eng.insert_tuples_into(kg, rel, ids(ts)?).is_ok() }
        ["d", r, ts] => { let (kg, rel) = split_shard(r)?; eng.delete_tuples_from(kg, rel, ids(ts)?).is_ok() }
        ["X", r] => { let (kg, rel) = split_shard(r)?; eng.drop_relation_in(kg, rel).is_ok() }
        ["F", kg] => eng.save_knowledge_graph(kg).is_ok(),
        ["C"] => eng.compact_all().is_ok(),
        _ => return None,
    })
}

/// `@<j>[c<keep><f>]` → (j, Some((keep, f)))
fn crash_spec(tok: &str) -> Option<(usize, Option<(usize, char)>)> {
    let s = tok.strip_prefix('@')?;
    let d: String = s.chars().take_while(|c| c.is_ascii_digit()).collect();
    let j: usize = d.parse().ok()?;
    if j == 0 { return None; }
    let rest = &s[d.len()..];
    if rest.is_empty() { return Some((j, None)); }
    let rest = rest.strip_prefix('c')?;
    let kd: String = rest.chars().take_while(|c| c.is_ascii_digit()).collect();
    let keep: usize = kd.parse().ok()?;
    let f = &rest[kd.len()..];
    if f.len() != 1 || !"eplm".contains(f) { return None; }
    Some((j, Some((keep, f.chars().next().unwrap()))))
}

/// Tear the data written by the step `label` in the image: find the file that grew / appeared between the `:pre`
/// listing and the image, split the new bytes into records (lines for the WAL files, one document otherwise), keep
/// `keep` whole records and a fragment `f` of the next one.
fn apply_cut(img: &Path, label: &str, pre: &[(PathBuf, u64)], keep: usize, f: char) {
    let data_label = matches!(label, "wal.append.write" | "wal.rewrite.tmpwrite" | "persist.batch.tmpwrite" | "persist.meta.tmpwrite");
    if !data_label { return; }
    let now = crashfs::sizes(img);
    let mut target: Option<(PathBuf, u64, u64)> = None;
    for (p, n) in &now {
        let before = pre.iter().find(|(q, _)| q == p).map(|(_, m)| *m);
        let base = if label == "wal.append.write" { before.unwrap_or(0) } else { 0 };
        if before != Some(*n) || (label != "wal.append.write" && before.is_none()) {
            if before.is_none() || before != Some(*n) { target = Some((p.clone(), base, *n)); }
        }
    }
    let (rel, base, len) = match target { Some(t) => t, None => return };
    let path = img.join(&rel);
    let bytes = match std::fs::read(&path) { Ok(b) => b, Err(_) => return };
    let new = &bytes[(base as usize).min(bytes.len())..];
    let lines = label.starts_with("wal.");
    // record boundaries (end offsets, relative to `new`)
    let mut ends: Vec<usize> = vec![];
    if lines { for (i, b) in new.iter().enumerate() { if *b == b'\n' { ends.push(i + 1); } } if ends.last() != Some(&new.len()) && !new.is_empty() { ends.push(new.len()); } }
    else if !new.is_empty() { ends.push(new.len()); }
    if keep >= ends.len() { return; } // nothing to tear: as-is
    let start = if keep == 0 { 0 } else { ends[keep - 1] };
    let rec = &new[start..ends[keep]];
    let mut off = match f {
        'e' => 0,
        'l' => rec.len().saturating_sub(1),
        'm' => match rec.iter().position(|b| *b >= 0x80) { Some(p) if lines => p + 1, _ => usize::MAX },
        _ => usize::MAX,
    };
    if off == usize::MAX { // 'p' (and 'm' without a multi-byte character): strictly inside, at a character boundary
        let mut m = (rec.len() / 2).clamp(1, rec.len().saturating_sub(2).max(1));
        while m > 1 && lines && (rec[m] & 0xC0) == 0x80 { m -= 1; }
        off = m;
    }
    let _ = len;
    crashfs::truncate(&path, base + (start + off) as u64);
}

enum Sys { Up(StorageEngine), Down }

pub fn exec(req: &str) -> String {
    let body = match req.strip_prefix("c13.run") { Some(b) => b.trim(), None => return "bad-request".into() };
    let (bs, rest) = match body.split_once('|') { Some((a, b)) => (a.trim(), b), None => (body, "") };
    let b: usize = match bs.parse() { Ok(b) => b, Err(_) => return "bad-request".into() };
    let mut items: Vec<Vec<&str>> = rest.split(';').map(|s| s.split_whitespace().collect::<Vec<_>>()).filter(|v| !v.is_empty()).collect();
    items.push(vec!["R"]);
    let base = match crashfs::scratch() { Ok(d) => d, Err(_) => return "err:tempdir".into() };
    let live = base.path().join("data");
    let img = base.path().join("img");
    let mut sys = match open(&live, b) {
        Ok(e) => { for kg in &KGS[1..] { let _ = e.create_knowledge_graph(kg); } Sys::Up(e) }
        Err(e) => return format!("err:initial-open:{e}"),
    };
    let mut out: Vec<String> = vec![];
    macro_rules! finish { () => {{ crashfs::mark("harness:pre"); return out.join(" "); }} }
    // reopen after a crash, recording the recovery's steps; with `target > 0` take the image at that step
    let reopen = |target: usize| -> (Result<StorageEngine, String>, Cb) {
        crashfs::arm(new_cb(&live, &img, target));
        let r = open(&live, b);
        (r, crashfs::disarm().unwrap())
    };
    let mut idx = 0;
    while idx <= items.len() {
        let it: Option<&Vec<&str>> = items.get(idx);
        idx += 1;
        // crash inside the reopen
        if let (Sys::Down, Some(toks)) = (&sys, it) {
            if let ["O", c] = toks.as_slice() {
                let (j, cut) = match crash_spec(c) { Some(x) => x, None => return "bad-request".into() };
                let (r, cb) = reopen(j);
                match r {
                    Err(_) => { out.push("err:open-failed".into()); finish!(); }
                    Ok(eng) => {
                        match (cb.hit_label.as_deref(), cut) {
                            (None, _) => crashfs::snapshot(&live, &img),
                            (Some(l), Some((k, f))) => apply_cut(&img, l, &cb.pre_sizes, k, f),
                            _ => {}
                        }
                        drop(eng);
                        crashfs::swap_in(&live, &img);
                        out.push(format!("!{}", order(&cb)));
                        continue;
                    }
                }
            }
        }
        // bring the engine up
        if let Sys::Down = sys {
            let (r, cb) = reopen(0);
            match r {
                Ok(e) => { out.push(format!("[{}/{}]", visible(&e), steps(&cb.labels))); sys = Sys::Up(e); }
                Err(_) => { out.push("err:open-failed".into()); finish!(); }
            }
        }
        let toks = match it { Some(t) => t, None => break };
        let mut eng = match std::mem::replace(&mut sys, Sys::Down) { Sys::Up(e) => e, Sys::Down => unreachable!() };
        let crash_tok = toks.last().filter(|l| l.starts_with('@')).copied();
        let multi = matches!(toks.first().copied(), Some("F") | Some("C"));
        let mut crashed_ord = String::new();
        match (toks.as_slice(), crash_tok) {
            (["R"], _) | (["O", _], _) => { crashfs::snapshot(&live, &img); }
            (_, Some(ct)) => {
                let (j, cut) = match crash_spec(ct) { Some(x) => x, None => return "bad-request".into() };
                crashfs::arm(new_cb(&live, &img, j));
                let r = run_op(&mut eng, &toks[..toks.len() - 1]);
                let cb = crashfs::disarm().unwrap();
                if r.is_none() { return "bad-request".into(); }
                if multi { crashed_ord = order(&cb); }
                match (cb.hit_label.as_deref(), cut) {
                    (None, _) => crashfs::snapshot(&live, &img),
                    (Some(l), Some((k, f))) => apply_cut(&img, l, &cb.pre_sizes, k, f),
                    _ => {}
                }
            }
            (t, None) => {
                crashfs::arm(new_cb(&live, &img, 0));
                let r = run_op(&mut eng, t);
                let cb = crashfs::disarm().unwrap();
                let ord = if multi && !cb.order.is_empty() { format!("/{}", order(&cb)) } else { String::new() };
                match r { Some(ok) => out.push(format!("{}/{}{}", if ok { "ok" } else { "err" }, steps(&cb.labels), ord)), None => return "bad-request".into() }
                sys = Sys::Up(eng);
                continue;
            }
        }
        drop(eng);
        crashfs::swap_in(&live, &img);
        out.push(format!("!{crashed_ord}"));
    }
    drop(sys_drop(sys));
    crashfs::mark("harness:pre");
    out.join(" ")
}
fn sys_drop(s: Sys) -> Option<StorageEngine> { match s { Sys::Up(e) => Some(e), Sys::Down => None } }

// ---------- generator ----------

/// run a history crash-free on the real engine and return the step strings of every output token
fn probe(req: &str) -> Vec<String> { exec(req).split(' ').map(|t| t.trim_matches(|c| c == '[' || c == ']').split('/').nth(1).unwrap_or("").to_string()).collect() }

pub fn gen(ctx: &mut Ctx) -> Vec<String> {
    let mut out = vec![];
    // shard names <kg>:<relation> from an alphabet with dots (file-name function of the shard metadata!)
    const A: &str = "v1.0:edge"; const B: &str = "v1.0:node"; const C: &str = "v1.1:edge"; const D: &str = "v1.1:a.b";
    let mk = |ops: &[&str]| -> Vec<String> { ops.iter().map(|o| o.replace("$A", A).replace("$B", B).replace("$C", C).replace("$D", D)).collect() };
    let bases: Vec<(usize, Vec<String>)> = vec![
        (2, mk(&["i $A 0", "i $A 1", "d $A 0", "i $A 2"])),
        (2, mk(&["i $A 0,1,2", "d $A 1", "i $A 3"])),
        (100, mk(&["i $A 0", "i $A 1,5", "d $A 0", "i $C 2"])),
        (100, mk(&["i $D 1", "i $D 4"])),
        (100, mk(&["i $A 5,2", "d $A 5"])),
        (2, mk(&["i $A 0", "i $B 1", "i $A 2", "i $B 3", "d $A 0", "d $B 1"])),
        (2, mk(&["i $A 0", "i $C 1", "i $A 2", "i $C 3", "i $B 4", "i $B 5", "d $C 1"])),
        (2, mk(&["i $A 0,1", "i $B 2,3", "i $C 4,5", "i $D 6,7", "d $B 2"])),
        (2, mk(&["i $A 0", "i $A 1", "i $A 2", "i $A 3", "i $A 6", "X $A", "i $A 4"])),
        (2, mk(&["i $D 0", "i $D 1", "C", "d $D 0", "d $D 1", "C", "i $D 2"])),
        (100, mk(&["i $A 0", "F v1.0", "i $A 1", "F v1.0", "C", "d $A 0", "F v1.0", "i $A 2"])),
        (100, mk(&["i $A 0", "i $B 1", "i $C 2", "F v1.0", "i $C 3", "F v1.1", "C"])),
        (3, mk(&["i $A 0", "i $C 1", "i $C 2", "X $C", "i $A 3", "i $A 4"])),
    ];
    let thorough = ctx.thorough;
    for (b, ops) in &bases {
        let ops: Vec<&str> = ops.iter().map(|x| x.as_str()).collect();
        let plain = format!("c13.run {} | {}", b, ops.join(" ; "));
        let st = probe(&plain);
        out.push(plain);
        for i in 0..ops.len() {
            let n = st.get(i).map(|s| if s == "-" { 0 } else { s.len() }).unwrap_or(0);
            for j in 1..=n {
                let lab = st[i].as_bytes()[j - 1] as char;
                let mut cuts: Vec<String> = vec!["".into()];
                if lab == 's' { for c in ["c0p", "c0l", "c0m", "c1e", "c1p", "c1l", "c1m", "c2p"] { cuts.push(c.into()); } }
                if lab == 'x' || lab == 'i' || lab == 'f' { cuts.push("c0p".into()); if thorough { cuts.push("c0e".into()); cuts.push("c0l".into()); } }
                for c in &cuts {
                    let mut h: Vec<String> = ops.iter().map(|s| s.to_string()).collect();
                    h[i] = format!("{} @{}{}", h[i], j, c);
                    let req = format!("c13.run {} | {}", b, h.join(" ; "));
                    ctx.count("systematic_crash_in_op");
                    // crash the recovery that follows, at each of its steps (every 3rd crash point in quick tier)
                    if c.is_empty() && (thorough || (i + j) % 3 == 0) {
                        let rst = probe(&req);
                        // tokens: i acks, then "!", then the reopen token
                        if let Some(rsteps) = rst.get(i + 1) {
                            let m = if rsteps == "-" { 0 } else { rsteps.len() };
                            for k in 3..=m {
                                let mut h2 = h.clone();
                                h2.insert(i + 1, format!("O @{k}"));
                                out.push(format!("c13.run {} | {}", b, h2.join(" ; ")));
                                ctx.count("systematic_crash_in_recovery");
                                if thorough && k % 2 == 0 {
                                    let mut h3 = h2.clone();
                                    h3.insert(i + 2, format!("O @{}", 3 + (k % 5)));
                                    out.push(format!("c13.run {} | {}", b, h3.join(" ; ")));
                                    ctx.count("systematic_double_crash_in_recovery");
                                }
                            }
                        }
                    }
                    out.push(req);
                }
            }
        }
    }
    // random histories: fresh tuple per insert, deletes only of tuples whose insert was acknowledged
    let n = ctx.budget(400, 5000);
    for _ in 0..n {
        let b = *ctx.pick(&[1usize, 2, 2, 3, 100]);
        let len = 2 + ctx.below(7);
        let mut next_id = 0u64;
        let mut live: Vec<(&str, u64)> = vec![];
        let mut h: Vec<String> = vec![];
        for _ in 0..len {
            let rel: &str = *ctx.pick(&[A, A, B, C, D]);
            let mut pending_live: Vec<(&str, u64)> = vec![];
            let mut remove_live: Vec<(&str, u64)> = vec![];
            let mut op = match ctx.below(12) {
                0..=5 => { let k = 1 + ctx.below(3); let idsv: Vec<u64> = (0..k).map(|_| { let i = next_id; next_id += 1; i }).collect();
                           for i in &idsv { pending_live.push((rel, *i)); } ctx.count("op_insert");
                           format!("i {} {}", rel, idsv.iter().map(|i| i.to_string()).collect::<Vec<_>>().join(",")) }
                6..=8 if !live.is_empty() => { let (r, i) = live[ctx.below(live.len())]; remove_live.push((r, i)); ctx.count("op_delete"); format!("d {r} {i}") }
                9 => { ctx.count("op_flush"); format!("F {}", ctx.pick(&["v1.0", "v1.1"])) }
                10 => { ctx.count("op_compact"); "C".into() }
                11 if live.iter().any(|(r, _)| *r == rel) => { remove_live = live.iter().filter(|(r, _)| *r == rel).cloned().collect(); ctx.count("op_drop_relation"); format!("X {rel}") }
                _ => { let i = next_id; next_id += 1; pending_live.push((rel, i)); ctx.count("op_insert"); format!("i {rel} {i}") }
            };
            let crashed = match ctx.below(10) {
                0..=2 => { let j = 1 + ctx.below(12);
                    let c = if op.starts_with('i') || op.starts_with('d') { *ctx.pick(&["", "", "c0p", "c0l", "c0m", "c1p", "c1e"]) } else { "" };
                    op = format!("{op} @{j}{c}"); ctx.count("crash_in_op"); true }
                _ => false,
            };
            h.push(op);
            if crashed {
                if ctx.chance(1, 3) { h.push(format!("O @{}", 3 + ctx.below(9))); ctx.count("crash_in_recovery"); }
                // tuples touched by an operation in flight are not used again
                live.retain(|x| !remove_live.contains(x));
            } else {
                live.retain(|x| !remove_live.contains(x));
                live.extend(pending_live);
                if ctx.chance(1, 8) { h.push("R".into()); ctx.count("restart"); }
            }
        }
        ctx.add("ops_total", h.len() as u64);
        out.push(format!("c13.run {} | {}", b, h.join(" ; ")));
    }
    out
}

pub const TGEN: Option<fn() -> String> = None;
