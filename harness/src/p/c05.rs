//! C05 — IR rewrite passes preserve plan semantics.
//! `c05.eval`/`c05.evalb`: real `CodeGenerator::execute` (counting / Boolean diff type) vs the Lean denotation.
//! `c05.pass <opt|jp|bs>`: the real pass on a generated tree; output tree + DD answers of input and output tree.
use crate::common::*;
use crate::u::irgen::*;
use crate::u::irw::*;
use inputlayer::ir::IRNode;
use inputlayer::{BooleanSpecializer, CodeGenerator, JoinPlanner, Optimizer, SemiringType, Tuple};

pub fn run_tree(ir: &IRNode, db: &[(String, Vec<Tuple>)], sem: SemiringType) -> String {
    let mut cg = CodeGenerator::new();
    cg.set_semiring_type(sem);
    for (r, ts) in db { cg.add_input(r.clone(), ts.clone()); }
    match cg.execute(ir) { Ok(ts) => rel_to_wire(&ts), Err(_) => "err".into() }
}
pub fn sem_w(s: SemiringType) -> &'static str {
    match s { SemiringType::Boolean => "boolean", SemiringType::Counting => "counting", SemiringType::Min => "min", SemiringType::Max => "max" }
}

fn req(op: &str, t: &IRNode, db: &[(String, Vec<Tuple>)]) -> String {
    let f = facts_wire(db);
    if f.is_empty() { format!("{op} {}", node_wire(t)) } else { format!("{op} {} | {}", node_wire(t), f) }
}

pub fn gen(ctx: &mut Ctx) -> Vec<String> {
    let mut out = vec![];
    // 1. shapes aimed at single rules, on set and bag databases
    for k in 0..19 { for rep in 0..ctx.budget(4, 10) {
        let t = targeted(ctx, k); let db = gen_db(ctx, false, rep % 2 == 1, 5);
        out.push(req("c05.eval", &t, &db));
        for p in ["opt", "jp", "bs"] { out.push(req(&format!("c05.pass {p}"), &t, &db)); }
        ctx.count("targeted");
    } }
    // 2. rule-shaped heads (what the IR builder produces), incl. unions of join clauses
    for i in 0..ctx.budget(260, 3000) {
        let ncl = if i % 3 == 0 { 2 + ctx.below(2) } else { 1 };
        let joins = i % 2 == 0; let agg = i % 5 == 0;
        let t = rule_head(ctx, ncl, joins, agg);
        let dup = ctx.chance(1, 4); let db = gen_db(ctx, false, dup, 6);
        if i % 4 == 0 { out.push(req("c05.eval", &t, &db)); }
        for p in ["opt", "jp", "bs"] { out.push(req(&format!("c05.pass {p}"), &t, &db)); }
        ctx.count(if ncl > 1 { "rule_union" } else { "rule_single" });
        if joins { ctx.count("rule_with_joins"); } if agg && ncl == 1 { ctx.count("rule_aggregate"); }
    }
    // 3. random well-formed trees
    let mut tg = TreeGen { counter: 0, simple_preds: false };
    for i in 0..ctx.budget(420, 6000) {
        let b = 1 + ctx.below(if i % 4 == 0 { 9 } else { 5 });
        let t = tg.tree(ctx, b);
        let mixed = ctx.chance(1, 4);
        let dup = ctx.chance(1, 3); let db = gen_db(ctx, mixed, dup, 5);
        out.push(req(if i % 7 == 0 { "c05.evalb" } else { "c05.eval" }, &t, &db));
        if i % 2 == 0 { let p = ["opt", "bs", "opt", "jp"][(i / 2) % 4]; out.push(req(&format!("c05.pass {p}"), &t, &db)); }
        ctx.count("random_tree"); ctx.add("random_tree_ops", b as u64); if mixed { ctx.count("mixed_kind_db"); }
    }
    // 4. exhaustive small scope (thorough): every tree of <= 2 unary/binary operators over two scans from a fixed palette
    if ctx.thorough {
        for t in small_scope() { for _ in 0..2 { let db = gen_db(ctx, false, true, 4);
            out.push(req("c05.pass opt", &t, &db)); out.push(req("c05.pass bs", &t, &db)); ctx.count("small_scope"); } }
    }
    // 5. malformed: indices out of range where the code is total (`Tuple::project`/`get` drop them)
    for _ in 0..ctx.budget(40, 300) {
        let db = gen_db(ctx, false, false, 4);
        let base = scan("r1", &["A", "B"]);
        let t = match ctx.below(4) {
            0 => IRNode::Map { input: bx(base), projection: vec![ctx.below(4), 7, ctx.below(2)], output_schema: vec!["P".into(), "Q".into(), "R".into()] },
            1 => IRNode::Filter { input: bx(base), predicate: gen_pred_over(ctx, &[0, 1, 5], 1, false) },
            2 => IRNode::Join { left: bx(base), right: bx(scan("r2", &["B", "C"])), left_keys: vec![1, 9], right_keys: vec![0, 8], output_schema: vec!["A".into(), "B".into(), "C".into()] },
            _ => IRNode::Aggregate { input: bx(base), group_by: vec![0, 6], aggregations: vec![(gen_agg(ctx), 5)], output_schema: vec!["A".into(), "x".into()] },
        };
        out.push(req("c05.eval", &t, &db)); ctx.count("malformed");
    }
    out
}

fn small_scope() -> Vec<IRNode> {
    use inputlayer::ir::Predicate as P;
    let leaves = vec![scan("r1", &["A", "B"]), scan("r2", &["B", "C"])];
    let preds = vec![P::True, P::False, P::ColumnGtConst(0, 1), P::ColumnLeConst(1, 2), P::ColumnsEq(0, 1), P::ColumnGtConst(2, 1)];
    let un = |t: &IRNode| -> Vec<IRNode> {
        let w = width(t); let mut v = vec![];
        for p in &preds { v.push(IRNode::Filter { input: bx(t.clone()), predicate: p.clone() }); }
        for proj in [vec![0usize], vec![1, 0], (0..w).collect::<Vec<_>>()] { if proj.iter().all(|i| *i < w) {
            v.push(IRNode::Map { input: bx(t.clone()), output_schema: proj.iter().map(|i| format!("m{i}")).collect(), projection: proj }); } }
        v.push(IRNode::Distinct { input: bx(t.clone()) });
        v
    };
    let bin = |l: &IRNode, r: &IRNode| -> Vec<IRNode> {
        let mut v = vec![];
        for (lk, rk) in [(vec![], vec![]), (vec![1usize], vec![0usize]), (vec![0], vec![1])] {
            if lk.iter().all(|i| *i < width(l)) && rk.iter().all(|i| *i < width(r)) {
                let mut s = l.output_schema(); for (i, n) in r.output_schema().iter().enumerate() { if !rk.contains(&i) { s.push(n.clone()); } }
                v.push(IRNode::Join { left: bx(l.clone()), right: bx(r.clone()), left_keys: lk, right_keys: rk, output_schema: s });
            }
        }
        if width(l) == width(r) { v.push(IRNode::Union { inputs: vec![l.clone(), r.clone()] }); }
        v
    };
    let mut l1: Vec<IRNode> = vec![]; for t in &leaves { l1.extend(un(t)); } l1.extend(bin(&leaves[0], &leaves[1]));
    let mut l2: Vec<IRNode> = vec![]; for t in &l1 { l2.extend(un(t)); }
    for t in &l1 { for s in &leaves { l2.extend(bin(t, s)); l2.extend(bin(s, t)); } }
    let mut l3: Vec<IRNode> = vec![]; for t in &l2 { if matches!(t, IRNode::Join { .. } | IRNode::Map { .. } | IRNode::Filter { .. }) { l3.extend(un(t)); } }
    l1.into_iter().chain(l2).chain(l3).collect()
}

pub fn exec(req: &str) -> String {
    let toks: Vec<&str> = req.split(' ').collect();
    match toks[0] {
        "c05.eval" | "c05.evalb" => {
            let (t, db) = match tree_and_db(toks[1..].to_vec()) { Some(x) => x, None => return "bad-request".into() };
            run_tree(&t, &db, if toks[0] == "c05.evalb" { SemiringType::Boolean } else { SemiringType::Counting })
        }
        "c05.pass" => {
            if toks.len() < 3 { return "bad-request".into(); }
            let (t, db) = match tree_and_db(toks[2..].to_vec()) { Some(x) => x, None => return "bad-request".into() };
            let (out, sem, tag) = match toks[1] {
                "opt" => (Optimizer::new().optimize(t.clone()), SemiringType::Counting, String::new()),
                "jp" => (JoinPlanner::new().plan_joins(t.clone()), SemiringType::Counting, String::new()),
                "bs" => { let (o, a) = BooleanSpecializer::new().specialize(t.clone()); (o, a.semiring, format!("sem={} ", sem_w(a.semiring))) }
                _ => return "bad-request".into(),
            };
            format!("{}{}#{}#{}", tag, node_wire(&out), run_tree(&t, &db, SemiringType::Counting), run_tree(&out, &db, sem))
        }
        _ => "bad-request".into(),
    }
}
pub const TGEN: Option<fn() -> String> = None;
