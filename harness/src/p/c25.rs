//! C25 — vector index state follows its history and persists: histories over the real `HnswIndex`
//! with the state observed after every mutation (`st`: len, tombstones, dimension, the persisted
//! vectors, the graph's ids) and save/load cycles (`sl`) at arbitrary points.
//!   c25.hist <metric> <m> <ef_construction> <ef_search> | op ; op ; …
use crate::common::*;
use crate::u::hnswhist::*;

pub fn gen(ctx: &mut Ctx) -> Vec<String> {
    let mut out = vec![];
    let n = ctx.budget(320, 3200);
    for i in 0..n {
        let cfg = rand_cfg(ctx);
        let mut g = Gen::new(ctx);
        let mut ops: Vec<String> = vec![];
        let len = 3 + ctx.below(18);
        let scenario = i % 4;
        if scenario == 1 { // delete then re-insert, persisted in between or not
            let nn = 3 + ctx.below(8);
            ops.push(g.batch_n(ctx, nn)); ops.push("st".into());
            let id = ctx.below(nn); ops.push(format!("d {}", id)); g.deleted.push(id); ops.push("st".into());
            if ctx.chance(1, 2) { ops.push("sl".into()); ops.push("st".into()); }
            ops.push(format!("i {} {}", id, g.vecw(ctx))); ops.push("st".into());
            ops.push("sl".into()); ops.push("st".into()); ops.push(g.search_all(ctx));
            ctx.count("c25_reinsert_deleted");
        }
        for _ in 0..len {
            let r = ctx.below(100);
            let op = if r < 40 { g.insert(ctx) } else if r < 48 { g.batch(ctx, "ib", true) } else if r < 70 { g.delete(ctx) }
                else if r < 76 { g.batch(ctx, "rb", true) } else if r < 90 { "sl".to_string() } else { g.search_all(ctx) };
            let is_sl = op == "sl";
            ops.push(op); ops.push("st".into());
            if is_sl && ctx.chance(1, 2) { ops.push(g.search_all(ctx)); }
        }
        if scenario == 3 { ops.push("sl".into()); ops.push("st".into()); ops.push(g.search_all(ctx)); }
        ctx.count("c25_histories"); ctx.add("c25_ops", ops.len() as u64);
        ctx.add("c25_saveloads", ops.iter().filter(|o| *o == "sl").count() as u64);
        out.push(format!("c25.hist {} | {}", cfg, ops.join(" ; ")));
    }
    for r in ["c25.hist l2 8 100 | st", "c25.hist l2 8 100 32 | sl ; st ; d x"] { out.push(r.to_string()); }
    out
}

pub fn exec(req: &str) -> String {
    let (head, items) = match req.split_once(" | ") { Some(x) => x, None => return "bad-request".into() };
    let p: Vec<&str> = head.split(' ').collect();
    if p.len() != 5 || p[0] != "c25.hist" { return "bad-request".into(); }
    match (p[2].parse::<usize>(), p[3].parse::<usize>(), p[4].parse::<usize>()) {
        (Ok(m), Ok(efc), Ok(efs)) if m >= 2 && m <= 64 && efc >= 1 && efc <= 1000 => exec_history(p[1], m, efc, efs, items),
        _ => "bad-request".into(),
    }
}
pub const TGEN: Option<fn() -> String> = None;
