//! C12 — every stored value kind survives restart unchanged.
//! request: `c12.hist <cfg> <jsontable> | items` (items as in `u/store.rs`). `<jsontable>` lists the values of the
//! history whose WAL (serde_json) image is not the value itself: `wire>wire` or `wire>!` (line unreadable), joined by
//! `+`, or `-` when empty. The table is an input of the model (serde_json is a trusted parameter); `exec`
//! recomputes it with the real `Serialize`/`Deserialize for Value` and answers `bad-json-table` on any difference.
use crate::common::*;
use crate::u::store::*;
use inputlayer::Value;
use std::sync::Arc;

fn json_image(v: &Value) -> Option<Value> {
    let s = serde_json::to_string(v).ok()?;
    serde_json::from_str::<Value>(&s).ok()
}

/// table entries for the values occurring in the items
fn table_for(items: &[&str]) -> String {
    let mut ent: Vec<String> = vec![];
    for it in items {
        let p: Vec<&str> = it.split(' ').collect();
        if (p[0] == "ins" || p[0] == "del") && p.len() > 2 {
            for t in &p[2..] { if let Some(tp) = tuple_of_wire(t) { for v in tp.values() {
                let w = val_to_wire(v);
                let e = match json_image(v) { None => Some(format!("{w}>!")), Some(v2) => { let w2 = val_to_wire(&v2); if w2 != w { Some(format!("{w}>{w2}")) } else { None } } };
                if let Some(e) = e { if !ent.contains(&e) { ent.push(e); } }
            } } }
        }
    }
    ent.sort();
    if ent.is_empty() { "-".into() } else { ent.join("+") }
}

fn kinds() -> Vec<Vec<Value>> {
    // per kind: a few distinct representative values (first = "plain")
    let f = |b: u64| Value::Float64(f64::from_bits(b));
    let v = |x: &[f32]| Value::Vector(Arc::new(x.to_vec()));
    let v8 = |x: &[i8]| Value::VectorInt8(Arc::new(x.to_vec()));
    vec![
        vec![Value::Int32(5), Value::Int32(i32::MIN), Value::Int32(i32::MAX), Value::Int32(-1)],
        vec![Value::Int64(1), Value::Int64(i64::MIN), Value::Int64(i64::MAX), Value::Int64((1 << 53) + 1), Value::Int64(5_000_000_000)],
        vec![f(0x3ff8000000000000), f(0x8000000000000000), f(0), f(0x0000000000000001), f(0x7fefffffffffffff), f(0x3fb999999999999a), f(0x7ff8000000000000), f(0xfff8000000000001), f(0x7ff0000000000000), f(0xfff0000000000000)],
        vec![Value::string("x"), Value::string(""), Value::string("\u{10000}é"), Value::string("a\"b\\c\n"), Value::string("a\u{0}")],
        vec![Value::Bool(true), Value::Bool(false)],
        vec![Value::Null],
        vec![Value::Timestamp(9), Value::Timestamp(i64::MIN), Value::Timestamp(0)],
        vec![v(&[1.0, 2.0]), v(&[0.5, -0.0]), v(&[f32::NAN, 1.0]), v(&[f32::INFINITY, 0.0]), v(&[1.0]), v(&[]), v(&[1.0, 2.0, 3.0]), v(&[1.0, 2.0, 3.0, 4.0])],
        vec![v8(&[1, -1]), v8(&[-128, 127]), v8(&[3]), v8(&[]), v8(&[1, 2, 3])],
    ]
}

fn random_double(ctx: &mut Ctx) -> Value {
    match ctx.below(4) {
        0 => Value::Float64(f64::from_bits(ctx.next())),
        1 => Value::Float64(f64::from_bits(ctx.next() & 0x7fefffffffffffff)), // finite, positive
        2 => Value::Float64((ctx.next() % 1_000_000) as f64 / 1000.0),
        _ => Value::Float64(f64::from_bits(0x3ff0000000000000 + (ctx.next() % (1 << 40)))),
    }
}

fn wire_t(vs: &[Value]) -> String { vs.iter().map(val_to_wire).collect::<Vec<_>>().join(",") }

/// maintenance / restart pattern around a list of insert items
fn wrap(ctx: &mut Ctx, ins: Vec<String>) -> Vec<String> {
    let mut items = vec![];
    let pat = ctx.below(5);
    for (i, it) in ins.iter().enumerate() {
        items.push(it.clone());
        match pat {
            1 => items.push("save".into()),                     // every insert its own batch file
            2 if i == 0 => items.push("save".into()),           // flush between first and rest
            3 if i + 1 == ins.len() => items.push("save".into()),
            4 if i == 0 => items.push("restart".into()),
            _ => {}
        }
    }
    if ctx.chance(1, 4) { items.push("compact".into()); }
    items.push("restart".into());
    if ctx.chance(1, 3) { items.push("restart".into()); }
    items
}

pub fn gen(ctx: &mut Ctx) -> Vec<String> {
    let ks = kinds();
    let mut hs: Vec<(String, Vec<String>)> = vec![];
    // 1. every value of every kind alone, through the WAL (restart) and through a batch file (save; restart)
    for k in &ks { for v in k {
        hs.push(("b10000,w0,mi".into(), vec![format!("ins m {}", val_to_wire(v)), "restart".into()]));
        hs.push(("b10000,w0,mi".into(), vec![format!("ins m {}", val_to_wire(v)), "save".into(), "restart".into()]));
    } }
    ctx.add("single_value_histories", hs.len() as u64);
    // 2. all ordered pairs of kinds in one column: one batch, two batches, and first-in-WAL
    for a in &ks { for b in &ks {
        let (x, y) = (&a[0], if std::ptr::eq(a, b) && a.len() > 1 { &a[1] } else { &b[0] });
        if val_to_wire(x) == val_to_wire(y) { continue; }
        hs.push(("b10000,w0,mi".into(), vec![format!("ins m {}", val_to_wire(x)), format!("ins m {}", val_to_wire(y)), "restart".into()]));
        hs.push(("b10000,w0,mi".into(), vec![format!("ins m {} {}", val_to_wire(x), val_to_wire(y)), "save".into(), "restart".into()]));
        hs.push(("b1,w0,mi".into(), vec![format!("ins m {}", val_to_wire(x)), format!("ins m {}", val_to_wire(y)), "restart".into(), "compact".into(), "restart".into()]));
        // the column changes kind BETWEEN flushes of one process: every batch file is homogeneous, both values must survive
        hs.push(("b10000,w0,mi".into(), vec![format!("ins m {}", val_to_wire(x)), "save".into(), format!("ins m {}", val_to_wire(y)), "save".into(), "restart".into()]));
        hs.push(("b10000,w0,mi".into(), vec![format!("ins m {}", val_to_wire(x)), "save".into(), format!("ins m {}", val_to_wire(y)), "restart".into()]));
        ctx.count("kind_pairs");
    } }
    // 3. random doubles through the WAL and through batches (serde_json round trip, NaN payloads)
    let n = ctx.budget(100, 3000);
    for i in 0..n {
        let k = 1 + ctx.below(4);
        let mut vs: Vec<String> = vec![];
        for _ in 0..k { let w = val_to_wire(&random_double(ctx)); if !vs.contains(&w) { vs.push(w); } }
        let mut items = vec![format!("ins m {}", vs.join(" "))];
        if i % 3 == 0 { items.push("save".into()); }
        items.push("restart".into());
        hs.push(("b10000,w0,mi".into(), items));
        ctx.count("random_double_histories");
    }
    // 4. column-wise mixes in arity 2-3 with flush points before / between / after
    let n = ctx.budget(150, 4000);
    for _ in 0..n {
        let ar = 2 + ctx.below(2);
        let homogeneous = ctx.chance(1, 3);
        let cols: Vec<usize> = (0..ar).map(|_| ctx.below(ks.len())).collect();
        let rows = 1 + ctx.below(4);
        let mut ins: Vec<String> = vec![];
        let mut seen: Vec<String> = vec![];
        for _ in 0..rows {
            let mut tuples = vec![];
            for _ in 0..(1 + ctx.below(2)) {
                let t: Vec<Value> = (0..ar).map(|c| {
                    let kind = if homogeneous || ctx.chance(3, 4) { cols[c] } else { ctx.below(ks.len()) };
                    let pool = &ks[kind];
                    if kind == 2 && ctx.chance(1, 4) { random_double(ctx) } else if homogeneous && kind >= 7 { pool[ctx.below(2)].clone() } else { pool[ctx.below(pool.len())].clone() }
                }).collect();
                let w = wire_t(&t);
                if !seen.contains(&w) { seen.push(w.clone()); tuples.push(w); }
            }
            if !tuples.is_empty() { ins.push(format!("ins m {}", tuples.join(" "))); }
        }
        if ins.is_empty() { continue; }
        let b = *ctx.pick(&["b10000", "b1", "b2", "b3"]);
        hs.push((format!("{b},w0,mi"), wrap(ctx, ins)));
        ctx.count(if homogeneous { "homogeneous_mix_histories" } else { "heterogeneous_mix_histories" });
    }
    // 5. degenerate arities and vector dimensions that re-chunk silently (2,3,1 -> 3 rows of 2)
    hs.push(("b10000,w0,mi".into(), vec!["ins m ()".into(), "restart".into()]));
    hs.push(("b10000,w0,mi".into(), vec!["ins m v:3f800000/40000000 v:3f800000/40000000/40400000 v:40800000".into(), "save".into(), "restart".into()]));
    hs.push(("b10000,w0,mi".into(), vec!["ins m v8:1/2 v8:3/4/5 v8:6".into(), "save".into(), "restart".into()]));
    hs.into_iter().map(|(cfg, items)| {
        let refs: Vec<&str> = items.iter().map(|s| s.as_str()).collect();
        format!("c12.hist {} {} | {}", cfg, table_for(&refs), items.join(" ; "))
    }).collect()
}

pub fn exec(req: &str) -> String {
    let (head, items) = match split_hist(req) { Some(x) => x, None => return "bad-request".into() };
    if head.len() != 3 || head[0] != "c12.hist" { return "bad-request".into(); }
    let cfg = match parse_cfg(head[1]) { Some(c) => c, None => return "bad-request".into() };
    // shrinking removes items: the table may then list values that no longer occur - accept supersets
    let actual = table_for(&items);
    let given: Vec<&str> = if head[2] == "-" { vec![] } else { head[2].split('+').collect() };
    if actual != "-" && !actual.split('+').all(|e| given.contains(&e)) { return "bad-json-table".into(); }
    for g in &given { // every given entry must be true of serde_json, whether or not the value still occurs
        let (a, b) = match g.split_once('>') { Some(x) => x, None => return "bad-json-table".into() };
        let v = match val_of_wire(a) { Some(v) => v, None => return "bad-json-table".into() };
        let img = match json_image(&v) { None => "!".to_string(), Some(v2) => val_to_wire(&v2) };
        if img != b { return "bad-json-table".into(); }
    }
    run_history(&cfg, &items)
}
pub const TGEN: Option<fn() -> String> = None;
