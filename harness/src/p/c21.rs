//! C21 — proof trees are valid derivations: every tree the real `.why` returns is rendered
//! canonically (walk of the real `ProofTree`) together with the derived data the engine handed to
//! the chainer; the Lean side re-runs the model chainer and feeds the real trees to the verified checker.
use crate::common::*;
use crate::u::prov::*;
use crate::u::provgen;

pub fn gen(ctx: &mut Ctx) -> Vec<String> { provgen::gen_why(ctx, "c21") }

pub fn exec(req: &str) -> String {
    match req.split(' ').next().unwrap_or("") {
        "c21.why" => exec_why(req),
        "c21.bpt" => exec_bpt(req),
        _ => "bad-request".into(),
    }
}
pub const TGEN: Option<fn() -> String> = None;
