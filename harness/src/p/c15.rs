//! C15 — concurrent `FilePersist::append` / `flush` under a deterministic step scheduler, with a
//! restart from a copy of the directory taken at every step boundary.
//!
//! request: `c15.p B=<buffer_size> fine=<0|1> S=<#shards> pre=<#ensured> T=<programs> | t ; t ; …`
//! (see lean/ILV/Drv/C15.lean for the grammar and the output format).
use crate::common::*;
use crate::u::sched::*;
use inputlayer::storage::persist::{FilePersist, PersistBackend, PersistConfig, Update};
use inputlayer::{DurabilityMode, Tuple, Value};
use std::sync::{Arc, Mutex};

#[derive(Clone, Debug)]
pub enum Op { Append(usize, Vec<u64>), Flush(usize) }

pub fn parse_progs(s: &str) -> Option<Vec<Vec<Op>>> {
    s.split('/').map(|t| {
        if t == "-" { return Some(vec![]); }
        t.split(',').map(|o| {
            let (k, r) = o.split_at(1);
            match k {
                "f" => Some(Op::Flush(r.parse().ok()?)),
                "a" => { let mut it = r.split('.'); let s = it.next()?.parse().ok()?; Some(Op::Append(s, it.map(|x| x.parse().ok()).collect::<Option<Vec<u64>>>()?)) }
                _ => None,
            }
        }).collect::<Option<Vec<Op>>>()
    }).collect()
}
pub fn show_progs(p: &[Vec<Op>]) -> String {
    p.iter().map(|t| if t.is_empty() { "-".to_string() } else { t.iter().map(|o| match o {
        Op::Flush(s) => format!("f{s}"),
        Op::Append(s, us) => format!("a{s}{}", us.iter().map(|u| format!(".{u}")).collect::<String>()),
    }).collect::<Vec<_>>().join(",") }).collect::<Vec<_>>().join("/")
}

fn shard_name(s: usize) -> String { format!("k:s{s}") }
fn upd(id: u64) -> Update { Update { data: Tuple::new(vec![Value::Int64(id as i64)]), time: id, diff: 1 } }
fn ids(v: &[u64]) -> String { v.iter().map(|x| x.to_string()).collect::<Vec<_>>().join(".") }

fn pcfg(path: &std::path::Path, b: usize) -> PersistConfig {
    PersistConfig { path: path.to_path_buf(), buffer_size: b, durability_mode: DurabilityMode::Immediate, max_wal_size_bytes: 0 }
}

/// ids found in the WAL file of a directory image, per shard (file order)
fn wal_ids(dir: &std::path::Path, ns: usize) -> Vec<Vec<u64>> {
    let mut out = vec![vec![]; ns];
    if let Ok(s) = std::fs::read_to_string(dir.join("wal/current.wal")) {
        for line in s.lines() {
            let json = if line.len() > 9 && line.as_bytes()[8] == b':' { &line[9..] } else { line };
            if let Ok(v) = serde_json::from_str::<serde_json::Value>(json) {
                let sh = v["shard"].as_str().unwrap_or("");
                let t = v["update"]["time"].as_u64().unwrap_or(u64::MAX);
                for i in 0..ns { if sh == shard_name(i) { out[i].push(t); } }
            }
        }
    }
    out
}

fn read_ids(p: &FilePersist, s: usize) -> Vec<u64> {
    match p.read(&shard_name(s), 0) { Ok(us) => us.iter().map(|u| u.time).collect(), Err(_) => vec![] }
}

pub fn exec(req: &str) -> String {
    let (head, tail) = match req.split_once(" | ") { Some((h, t)) => (h, t), None => (req.trim_end_matches(" |"), "") };
    let a: Vec<&str> = head.split(' ').collect();
    if a.len() != 6 || a[0] != "c15.p" { return "bad-request".into(); }
    let get = |i: usize, k: &str| a[i].strip_prefix(k).and_then(|x| x.strip_prefix('='));
    let (b, fine, ns, pre, progs) = match (get(1, "B").and_then(|x| x.parse::<usize>().ok()), get(2, "fine").and_then(|x| x.parse::<u8>().ok()),
        get(3, "S").and_then(|x| x.parse::<usize>().ok()), get(4, "pre").and_then(|x| x.parse::<usize>().ok()), get(5, "T").and_then(parse_progs)) {
        (Some(b), Some(f), Some(s), Some(p), Some(t)) => (b, f != 0, s, p, t), _ => return "bad-request".into() };
    let sched: Option<Vec<usize>> = tail.split(' ').filter(|x| !x.is_empty() && *x != ";" && *x != "|").map(|x| x.parse().ok()).collect();
    let sched = match sched { Some(s) => s, None => return "bad-request".into() };

    let root = tmpdir();
    let dir = root.path().join("p");
    let persist = Arc::new(FilePersist::new(pcfg(&dir, b)).unwrap());
    for s in 0..pre { persist.ensure_shard(&shard_name(s)).unwrap(); }

    let mut active = vec!["persist.append.after_wal", "persist.append.after_buffer"];
    if fine { active.push("persist.flush.before_wal"); }
    let sc = Sched::new(progs.len(), &active, &["persist.flush.before_wal"]);
    let acks: Arc<Mutex<Vec<Vec<(usize, bool)>>>> = Arc::new(Mutex::new(vec![vec![]; progs.len()]));
    let mut handles = vec![];
    for (t, prog) in progs.iter().cloned().enumerate() {
        let (w, p, acks) = (sc.worker(t), persist.clone(), acks.clone());
        handles.push(std::thread::spawn(move || {
            w.enter();
            for op in prog {
                w.begin();
                let ok = std::panic::catch_unwind(std::panic::AssertUnwindSafe(|| match &op {
                    Op::Append(s, us) => p.append(&shard_name(*s), &us.iter().map(|u| upd(*u)).collect::<Vec<_>>()).is_ok(),
                    Op::Flush(s) => p.flush(&shard_name(*s)).is_ok(),
                })).unwrap_or(false);
                acks.lock().unwrap()[t].push((w.step_no(), ok));
            }
            w.exit();
        }));
    }
    sc.wait_all_parked();

    // crash image = copy of the directory at a step boundary
    let mut n_img = 0usize;
    let mut snap = |n: &mut usize| { let _ = copy_dir(&dir, &root.path().join(format!("img{}", *n))); *n += 1; };
    snap(&mut n_img);
    let mut blocked: Option<usize> = None;
    for (k, &t) in sched.iter().enumerate() {
        match sc.step(t) {
            StepResult::Arrived(_) => {}
            StepResult::Finished => sc.bump(),
            StepResult::Blocked => { blocked = Some(k); break; }
        }
        snap(&mut n_img);
    }
    if blocked.is_none() {
        // completion: lock holder first, else lowest unfinished thread
        loop {
            let t = match sc.holder().or_else(|| sc.unfinished().first().copied()) { Some(t) => t, None => break };
            match sc.step(t) { StepResult::Arrived(_) => {}, StepResult::Finished => break, StepResult::Blocked => { blocked = Some(usize::MAX); break; } }
            snap(&mut n_img);
        }
    }
    if blocked.is_some() { sc.release_all(); }
    for h in handles { let _ = h.join(); }
    Sched::uninstall();
    if let Some(k) = blocked { return if k == usize::MAX { "blocked-in-completion".into() } else { format!("blocked {k}") }; }

    let served: Vec<String> = (0..ns).map(|s| ids(&read_ids(&persist, s))).collect();
    let mut present: Vec<u64> = vec![];
    if let Ok(l) = persist.list_shards() { for s in 0..ns { if l.contains(&shard_name(s)) { present.push(s as u64); } } }
    drop(persist);

    // restart from every image, restored to the original path (shard metadata holds absolute batch paths)
    let mut imgs = vec![];
    for k in 0..n_img {
        let img = root.path().join(format!("img{k}"));
        let w = wal_ids(&img, ns);
        let _ = std::fs::remove_dir_all(&dir);
        if copy_dir(&img, &dir).is_err() { return "image-restore-failed".into(); }
        let r: Vec<Vec<u64>> = match FilePersist::new(pcfg(&dir, b)) {
            Ok(p) => (0..ns).map(|s| read_ids(&p, s)).collect(),
            Err(_) => return format!("recovery-failed-at-image-{k}"),
        };
        imgs.push((0..ns).map(|s| format!("r{}~w{}", ids(&r[s]), ids(&w[s]))).collect::<Vec<_>>().join("|"));
    }
    let acks = acks.lock().unwrap();
    let ack_s = acks.iter().map(|l| if l.is_empty() { "-".to_string() } else {
        l.iter().map(|(k, ok)| format!("{k}:{}", if *ok { "ok" } else { "err" })).collect::<Vec<_>>().join(",") }).collect::<Vec<_>>().join("/");
    format!("acks={} c={} served={} shards={}", ack_s, imgs.join(" "), served.join("|"), ids(&present))
}

// ---------------------------------------------------------------------------------------------
// generator: a throw-away simulation of the step structure (only to *choose* schedules: which
// thread is enabled, how long a maximal schedule is). It is not part of what is checked.
#[derive(Clone, PartialEq)]
enum Pc { Start, AfterWal, AfterBuf(bool), Hold }
#[derive(Clone)]
struct Sim { b: usize, fine: bool, buf: Vec<usize>, present: Vec<bool>, lock: Option<usize>, todo: Vec<Vec<Op>>, pc: Vec<Pc> }
impl Sim {
    fn new(b: usize, fine: bool, ns: usize, pre: usize, progs: &[Vec<Op>]) -> Sim {
        Sim { b, fine, buf: vec![0; ns], present: (0..ns).map(|s| s < pre).collect(), lock: None, todo: progs.to_vec(), pc: vec![Pc::Start; progs.len()] }
    }
    fn finished(&self, t: usize) -> bool { self.todo[t].is_empty() }
    fn needs_lock(&self, t: usize) -> bool {
        match (&self.pc[t], self.todo[t].first()) {
            (Pc::AfterWal, _) | (Pc::AfterBuf(true), _) => true,
            (Pc::Start, Some(Op::Flush(_))) => true,
            _ => false,
        }
    }
    fn enabled(&self, t: usize) -> bool { !self.finished(t) && !(self.needs_lock(t) && self.lock.is_some()) }
    fn finish(&mut self, t: usize) { self.todo[t].remove(0); self.pc[t] = Pc::Start; }
    fn flush_enter(&mut self, t: usize, s: usize) {
        if !self.present[s] || self.buf[s] == 0 { self.finish(t); return; }
        self.buf[s] = 0;
        if self.fine { self.lock = Some(t); self.pc[t] = Pc::Hold; } else { self.finish(t); }
    }
    fn step(&mut self, t: usize) {
        let op = self.todo[t][0].clone();
        match (self.pc[t].clone(), op) {
            (Pc::Start, Op::Append(_, us)) => { if us.is_empty() { self.finish(t) } else { self.pc[t] = Pc::AfterWal } }
            (Pc::AfterWal, Op::Append(s, us)) => { self.present[s] = true; self.buf[s] += us.len(); self.pc[t] = Pc::AfterBuf(self.buf[s] >= self.b); }
            (Pc::AfterBuf(false), _) => self.finish(t),
            (Pc::AfterBuf(true), Op::Append(s, _)) => self.flush_enter(t, s),
            (Pc::Start, Op::Flush(s)) => self.flush_enter(t, s),
            (Pc::Hold, _) => { self.lock = None; self.finish(t); }
            _ => self.finish(t),
        }
    }
}

fn all_schedules(sim: &Sim, cur: &mut Vec<usize>, out: &mut Vec<Vec<usize>>, cap: usize) {
    if out.len() >= cap { return; }
    let en: Vec<usize> = (0..sim.todo.len()).filter(|&t| sim.enabled(t)).collect();
    if en.is_empty() { out.push(cur.clone()); return; }
    for t in en { let mut s2 = sim.clone(); s2.step(t); cur.push(t); all_schedules(&s2, cur, out, cap); cur.pop(); }
}

fn random_schedule(ctx: &mut Ctx, sim0: &Sim, blocked_ok: bool) -> Vec<usize> {
    let mut sim = sim0.clone(); let mut out = vec![];
    loop {
        let un: Vec<usize> = (0..sim.todo.len()).filter(|&t| !sim.finished(t)).collect();
        if un.is_empty() { break; }
        let en: Vec<usize> = un.iter().copied().filter(|&t| sim.enabled(t)).collect();
        if blocked_ok && en.len() < un.len() { let t = *un.iter().find(|t| !en.contains(t)).unwrap(); out.push(t); break; }
        // prefer switching threads in the middle of an operation
        let mid: Vec<usize> = en.iter().copied().filter(|&t| sim.pc[t] == Pc::Start).collect();
        let t = if !mid.is_empty() && ctx.chance(2, 3) { *ctx.pick(&mid) } else { *ctx.pick(&en) };
        sim.step(t); out.push(t);
    }
    out
}

fn req(b: usize, fine: bool, ns: usize, pre: usize, progs: &[Vec<Op>], sched: &[usize]) -> String {
    format!("c15.p B={} fine={} S={} pre={} T={} | {}", b, fine as u8, ns, pre, show_progs(progs), sched.iter().map(|t| t.to_string()).collect::<Vec<_>>().join(" ; "))
}

pub fn gen(ctx: &mut Ctx) -> Vec<String> {
    let mut out = vec![];
    let mut next_id = 1u64;
    let mut fresh = |n: usize| -> Vec<u64> { let v: Vec<u64> = (next_id..next_id + n as u64).collect(); next_id += n as u64; v };
    // (1) exhaustive: every maximal schedule of the small shapes around the WAL/buffer window
    let small: Vec<(usize, usize, usize, Vec<Vec<Op>>)> = vec![
        // (B, S, pre, programs)
        (100, 1, 0, vec![vec![Op::Append(0, fresh(1)), Op::Append(0, fresh(1))], vec![Op::Flush(0)]]),
        (100, 1, 1, vec![vec![Op::Append(0, fresh(2))], vec![Op::Append(0, fresh(1))], vec![Op::Flush(0)]]),
        (2, 1, 0, vec![vec![Op::Append(0, fresh(1))], vec![Op::Append(0, fresh(1))], vec![Op::Append(0, fresh(1))]]),
        (100, 2, 0, vec![vec![Op::Append(0, fresh(1)), Op::Flush(0)], vec![Op::Append(1, fresh(1)), Op::Flush(1)]]),
        (1, 2, 2, vec![vec![Op::Append(0, fresh(1))], vec![Op::Append(1, fresh(1))], vec![Op::Append(0, fresh(1))]]),
    ];
    for (b, ns, pre, progs) in &small {
        for fine in [false, true] {
            let sim = Sim::new(*b, fine, *ns, *pre, progs);
            let mut all = vec![]; all_schedules(&sim, &mut vec![], &mut all, 50000);
            let cap = ctx.budget(150, 4000);
            if all.len() <= cap { ctx.count("shapes_enumerated_exhaustively"); }
            let stride = (all.len() + cap - 1) / cap.max(1);
            let picked: Vec<&Vec<usize>> = all.iter().step_by(stride.max(1)).collect();
            ctx.add("enumerated_schedules", picked.len() as u64);
            for s in picked { out.push(req(*b, fine, *ns, *pre, progs, s)); }
        }
    }
    // (2) random programs: 2 threads x 2 ops, 3 threads x 1-2 ops, 1-2 shards, small buffers
    let n = ctx.budget(700, 12000);
    let mut blocked_budget = ctx.budget(4, 20);
    for _ in 0..n {
        let nt = 2 + ctx.below(2);
        let ns = 1 + ctx.below(2);
        let b = *ctx.pick(&[1usize, 2, 3, 100, 100]);
        let pre = ctx.below(ns + 1);
        let mut next = 1u64;
        let progs: Vec<Vec<Op>> = (0..nt).map(|_| (0..(1 + ctx.below(2))).map(|_| {
            let s = ctx.below(ns);
            if ctx.chance(1, 3) { Op::Flush(s) } else { let k = 1 + ctx.below(2); let v: Vec<u64> = (next..next + k as u64).collect(); next += k as u64; Op::Append(s, v) }
        }).collect()).collect();
        let fine = ctx.chance(1, 2);
        let sim = Sim::new(b, fine, ns, pre, &progs);
        let want_blocked = fine && blocked_budget > 0 && ctx.chance(1, 10);
        let mut s = random_schedule(ctx, &sim, want_blocked);
        if want_blocked { blocked_budget -= 1; ctx.count("blocked_probe"); }
        // sometimes leave the tail to the harness's completion order
        if !want_blocked && ctx.chance(1, 4) { let k = ctx.below(s.len() + 1); s.truncate(k); ctx.count("truncated_schedule"); }
        ctx.count(if fine { "fine" } else { "coarse" });
        ctx.count(&format!("threads_{nt}"));
        out.push(req(b, fine, ns, pre, &progs, &s));
    }
    // (3) malformed / degenerate
    out.push("c15.p B=2 fine=0 S=1 pre=0 T=a0 | 0 ; 0".into());          // empty append
    out.push("c15.p B=2 fine=0 S=1 pre=0 T=f0 | 0 ; 5 ; 0".into());      // flush of a missing shard; unknown thread id
    out.push("c15.p B=2 fine=1 S=1 pre=1 T=f0/- | 1 ; 0".into());
    out
}
pub const TGEN: Option<fn() -> String> = None;
