//! C09 — rules behave the same inline, as session rules and as persistent rules.
//!
//! `c09.rt <xhex source> <AST wire…>`  one rule: the source is parsed by the real `parse_rule`; the AST
//!     wire (prefix code, see `wire_rule`) is what the real parser produced for it — the request carries it so
//!     that the Lean side never parses IQL — and `exec` re-derives and compares it.  Output:
//!     `S=<same|diff|err> P=<same|diff|err> T=<xhex of the real to_string()>` where S is the session /
//!     request-local path (`format_rule_text` → engine parse) and P the persistent path
//!     (`format_rule_text` → `parse_rule_definition` → `SerializableRule` → JSON → `to_rule` → `format_rule`
//!     → parse), each compared with the originally parsed AST.
//! `c09.e2e <xhex source> <AST wire…>` the same rule submitted inline (`execute_query_with_rules_tuples_on`),
//!     request-local and as session rule through `Handler::execute_program`, as `+` persistent rule, and
//!     after a restart; output `agree` or `differ:<letters of the paths whose answer differs from inline>`.
//! `c09.builtins` the table of builtin function names.
use crate::common::*;
use inputlayer::ast::{AggregateFunc, ArithExpr, ArithOp, Atom, BodyPredicate, BuiltinFunc, ComparisonOp, Term};
use inputlayer::protocol::handler::Handler;
use inputlayer::protocol::wire::{QueryResult, WireValue};
use inputlayer::{Config, Rule};

// ---------------------------------------------------------------- AST -> wire
fn xhex(s: &str) -> String { format!("x{}", hex(s.as_bytes())) }
fn unxhex(s: &str) -> Option<String> { String::from_utf8(unhex(s.strip_prefix('x')?)?).ok() }
/// bits, `{:?}` text (what `Display for Term` writes), and what serde_json (as the catalog file uses it)
/// reads back for the value
fn fwire(f: f64, out: &mut Vec<String>) {
    out.push(format!("{:016x}", f.to_bits())); out.push(xhex(&format!("{:?}", f)));
    match serde_json::to_string(&f).ok().and_then(|j| serde_json::from_str::<f64>(&j).ok()) {
        Some(g) => { out.push(format!("{:016x}", g.to_bits())); out.push(xhex(&format!("{:?}", g))); }
        None => { out.push("-".into()); out.push("-".into()); }
    }
}

fn wire_arith(e: &ArithExpr, out: &mut Vec<String>) {
    match e {
        ArithExpr::Variable(s) => { out.push("v".into()); out.push(xhex(s)); }
        ArithExpr::Constant(n) => { out.push("i".into()); out.push(n.to_string()); }
        ArithExpr::FloatConstant(b) => { out.push("f".into()); fwire(f64::from_bits(*b), out); }
        ArithExpr::Binary { op, left, right } => {
            out.push("b".into());
            out.push(match op { ArithOp::Add => "add", ArithOp::Sub => "sub", ArithOp::Mul => "mul", ArithOp::Div => "div", ArithOp::Mod => "mod" }.into());
            wire_arith(left, out); wire_arith(right, out);
        }
    }
}
fn wire_term0(t: &Term, out: &mut Vec<String>) -> Option<()> {
    match t {
        Term::Variable(s) => { out.push("V".into()); out.push(xhex(s)); }
        Term::Constant(n) => { out.push("I".into()); out.push(n.to_string()); }
        Term::FloatConstant(f) => { out.push("F".into()); fwire(*f, out); }
        Term::StringConstant(s) => { out.push("S".into()); out.push(xhex(s)); }
        Term::BoolConstant(b) => { out.push("B".into()); out.push(if *b { "1" } else { "0" }.into()); }
        Term::Placeholder => out.push("W".into()),
        Term::Arithmetic(e) => { out.push("E".into()); wire_arith(e, out); }
        Term::Aggregate(f, v) => {
            match f { AggregateFunc::Count | AggregateFunc::CountDistinct | AggregateFunc::Sum | AggregateFunc::Min | AggregateFunc::Max | AggregateFunc::Avg => {}, _ => return None }
            out.push("G".into()); out.push(xhex(&f.to_string())); out.push(xhex(v));
        }
        Term::VectorLiteral(v) => { out.push("L".into()); out.push(v.len().to_string()); for f in v { fwire(*f, out); } }
        _ => return None,
    }
    Some(())
}
fn wire_term(t: &Term, out: &mut Vec<String>) -> Option<()> {
    match t {
        Term::FunctionCall(f, args) => {
            out.push("C".into()); out.push(xhex(f.as_str())); out.push(args.len().to_string());
            for a in args { wire_term0(a, out)?; }
            Some(())
        }
        _ => wire_term0(t, out),
    }
}
fn wire_atom(a: &Atom, out: &mut Vec<String>) -> Option<()> {
    out.push("A".into()); out.push(xhex(&a.relation)); out.push(a.args.len().to_string());
    for t in &a.args { wire_term(t, out)?; }
    Some(())
}
/// prefix code of a rule; `None` when it uses constructs outside the modelled grammar
/// (ranking aggregates, `hnsw_nearest`, nested function calls, field access, record patterns).
pub fn wire_rule(r: &Rule) -> Option<String> {
    let mut out = vec!["R".to_string()];
    wire_atom(&r.head, &mut out)?;
    out.push(r.body.len().to_string());
    for b in &r.body {
        match b {
            BodyPredicate::Positive(a) => { out.push("P".into()); wire_atom(a, &mut out)?; }
            BodyPredicate::Negated(a) => { out.push("N".into()); wire_atom(a, &mut out)?; }
            BodyPredicate::Comparison(l, op, r) => {
                out.push("M".into());
                out.push(match op { ComparisonOp::Equal => "eq", ComparisonOp::NotEqual => "ne", ComparisonOp::LessThan => "lt", ComparisonOp::LessOrEqual => "le", ComparisonOp::GreaterThan => "gt", ComparisonOp::GreaterOrEqual => "ge" }.into());
                wire_term(l, &mut out)?; wire_term(r, &mut out)?;
            }
            BodyPredicate::HnswNearest { .. } => return None,
        }
    }
    Some(out.join(" "))
}
/// full-fidelity comparison of two parsed rules (covers the constructs `wire_rule` cannot encode)
fn same_rule(a: &Rule, b: &Rule) -> bool { format!("{:?}", a) == format!("{:?}", b) && bits_of(a) == bits_of(b) }
/// float bit patterns in order (Debug prints `-0.0`/`0.0` distinctly but NaN payloads alike)
fn bits_of(r: &Rule) -> Vec<u64> {
    fn ta(e: &ArithExpr, o: &mut Vec<u64>) { match e { ArithExpr::FloatConstant(b) => o.push(*b), ArithExpr::Binary { left, right, .. } => { ta(left, o); ta(right, o); } _ => {} } }
    fn tt(t: &Term, o: &mut Vec<u64>) { match t { Term::FloatConstant(f) => o.push(f.to_bits()), Term::Arithmetic(e) => ta(e, o), Term::VectorLiteral(v) => o.extend(v.iter().map(|f| f.to_bits())), Term::FunctionCall(_, a) => a.iter().for_each(|x| tt(x, o)), _ => {} } }
    let mut o = vec![];
    r.head.args.iter().for_each(|t| tt(t, &mut o));
    for b in &r.body { match b { BodyPredicate::Positive(a) | BodyPredicate::Negated(a) => a.args.iter().for_each(|t| tt(t, &mut o)), BodyPredicate::Comparison(l, _, r) => { tt(l, &mut o); tt(r, &mut o); } BodyPredicate::HnswNearest { query, .. } => tt(query, &mut o) } }
    o
}

// ---------------------------------------------------------------- c09.rt
fn verdict(orig: &Rule, text: &str) -> &'static str {
    match inputlayer::parse_rule(text) { Err(_) => "err", Ok(r) => if same_rule(orig, &r) { "same" } else { "diff" } }
}
fn exec_rt(src: &str, wire: &str) -> String {
    let r1 = match inputlayer::parse_rule(src) { Ok(r) => r, Err(_) => return "unparsed".into() };
    // `?` = exploration mode (not used by the generators): no AST check, any construct
    if wire != "?" { match wire_rule(&r1) { Some(w) if w == wire => {}, Some(_) => return "wire-mismatch".into(), None => return "unsupported".into() } }
    // session / request-local path: handler.rs `format_rule_text` = `rule.to_string()`
    let s1 = r1.to_string();
    let s = verdict(&r1, &s1);
    // persistent path (same process), and after the catalog file has been written and read back
    let (p, q) = match inputlayer::statement::parse_rule_definition(&s1) {
        Err(_) => ("err", "err"),
        Ok(def) => {
            let live = verdict(&r1, &def.rule.to_rule().to_string());
            let json = match serde_json::to_string_pretty(&def.rule) { Ok(j) => j, Err(_) => return "json-encode-failed".into() };
            let back = match serde_json::from_str::<inputlayer::statement::SerializableRule>(&json) {
                Err(_) => "err",
                Ok(back) => verdict(&r1, &back.to_rule().to_string()),
            };
            (live, back)
        }
    };
    format!("S={s} P={p} R={q} T={}", xhex(&s1))
}

// ---------------------------------------------------------------- c09.e2e
fn rt() -> &'static tokio::runtime::Runtime {
    static RT: std::sync::OnceLock<tokio::runtime::Runtime> = std::sync::OnceLock::new();
    RT.get_or_init(|| tokio::runtime::Builder::new_multi_thread().worker_threads(2).enable_all().build().unwrap())
}
fn cfg(d: &std::path::Path) -> Config { let mut c = Config::default(); c.storage.data_dir = d.to_path_buf(); c.storage.performance.num_threads = 1; c }
const KG: &str = "default";
fn wv(v: &WireValue) -> String {
    match v {
        WireValue::Int32(n) => format!("i32:{n}"), WireValue::Int64(n) => format!("i64:{n}"),
        WireValue::Float64(f) => format!("f64:{:016x}", f.to_bits()), WireValue::String(s) => format!("s:{}", hex(s.as_bytes())),
        WireValue::Bool(b) => format!("b:{}", *b as u8), WireValue::Null => "null".into(), WireValue::Timestamp(t) => format!("ts:{t}"),
        WireValue::Vector(v) => format!("v:{}", v.iter().map(|f| format!("{:08x}", f.to_bits())).collect::<Vec<_>>().join("/")),
        WireValue::VectorInt8(v) => format!("v8:{}", v.iter().map(|i| i.to_string()).collect::<Vec<_>>().join("/")),
        WireValue::Bytes(b) => format!("bytes:{}", hex(b)),
    }
}
fn answer(r: Result<QueryResult, String>) -> String {
    match r {
        Err(_) => "error".into(),
        Ok(q) => {
            if q.schema.len() == 1 && q.schema[0].name == "message" { return "message".into(); }
            let mut rows: Vec<String> = q.rows.iter().map(|t| t.values.iter().map(wv).collect::<Vec<_>>().join(",")).collect();
            rows.sort(); rows.dedup(); rows.join(";")
        }
    }
}
fn exec_e2e(src: &str, wire: &str) -> String {
    let r1 = match inputlayer::parse_rule(src) { Ok(r) => r, Err(_) => return "unparsed".into() };
    match wire_rule(&r1) { Some(w) if w == wire || wire == "?" => {}, Some(_) => return "wire-mismatch".into(), None => return "unsupported".into() }
    let head = r1.head.relation.clone();
    let ar = r1.head.args.len();
    let vars: Vec<String> = (0..ar).map(|i| format!("Q{i}")).collect();
    let query = format!("?{}({})", head, vars.join(", "));
    let dir = if std::path::Path::new("/dev/shm").is_dir() { tempfile::Builder::new().prefix("ilvh-c09-").tempdir_in("/dev/shm") } else { tempfile::TempDir::new() };
    let dir = match dir { Ok(d) => d, Err(_) => return "io".into() };
    let h = match Handler::from_config(cfg(dir.path())) { Ok(h) => h, Err(e) => return format!("open-failed:{e}") };
    let run = |h: &Handler, sid: Option<&String>, t: String| -> Result<QueryResult, String> {
        match sid { Some(s) => rt().block_on(h.execute_program(Some(s), None, t, None)), None => rt().block_on(h.execute_program(None, Some(KG.into()), t, None)) }
    };
    for t in ["+q[(1,), (2,), (3,)]", "+r[(1, 1.5), (2, 2.0), (3, 3.0), (4, -1.25)]", "+ri[(1, 1), (2, 2), (3, 3), (4, -1)]",
              "+s[(1, true), (2, false)]", "+w[(1, \"a\"), (2, \"b c\")]", "+v[(1, [1.0, 0.0]), (2, [0.0, 2.0])]"] {
        if run(&h, None, t.into()).is_err() { return "setup-failed".into(); }
    }
    // I: inline — the text as written goes to the engine
    let inline = { let st = h.get_storage(); let prog = format!("{}\n__ilv_q({}) <- {}({})", src, vars.join(", "), head, vars.join(", "));
        match st.execute_query_with_rules_tuples_on(KG, &prog) { Ok(ts) => { let mut v: Vec<String> = ts.iter().map(|t| t.values().iter().map(val_to_wire).collect::<Vec<_>>().join(",")).collect(); v.sort(); v.dedup(); v.join(";") }, Err(e) => { if std::env::var("C09_DEBUG").is_ok() { eprintln!("inline error: {e}"); } "error".into() } } };
    // L: request-local rule + query in one program
    let local = answer(run(&h, None, format!("{}\n{}", src, query)));
    // S: session rule, then the query on the session
    let sid = match h.create_session(KG) { Ok(s) => s, Err(_) => return "no-session".into() };
    let sess = match run(&h, Some(&sid), src.to_string()) { Ok(_) => answer(run(&h, Some(&sid), query.clone())), Err(_) => "error".into() };
    let _ = run(&h, Some(&sid), ".session clear".into());
    // P: persistent rule
    let pers = match run(&h, None, format!("+{}", src)) { Ok(_) => answer(run(&h, None, query.clone())), Err(_) => "error".into() };
    // T: after restart
    drop(h);
    let rest = match Handler::from_config(cfg(dir.path())) { Ok(h2) => answer(run(&h2, None, query.clone())), Err(e) => { if std::env::var("C09_DEBUG").is_ok() { eprintln!("reopen error: {e}"); } "reopen-failed".into() } };
    if std::env::var("C09_DEBUG").is_ok() { eprintln!("I={inline} L={local} S={sess} P={pers} T={rest}"); }
    // inline prints typed values through the value codec, the handler through WireValue: same text form
    let mut d = String::new();
    for (k, a) in [("L", &local), ("S", &sess), ("P", &pers), ("T", &rest)] { if *a != inline { d.push_str(k); } }
    if inline == "error" { return "inline-error".into(); }
    if d.is_empty() { "agree".into() } else { format!("differ:{d}") }
}

// ---------------------------------------------------------------- c09.builtins
fn all_builtins() -> Vec<BuiltinFunc> {
    use BuiltinFunc::*;
    vec![Euclidean, Cosine, DotProduct, Manhattan, LshBucket, VecNormalize, VecDim, VecAdd, VecScale, TimeNow, TimeDiff, TimeAdd, TimeSub,
         TimeDecay, TimeDecayLinear, TimeBefore, TimeAfter, TimeBetween, WithinLast, IntervalsOverlap, IntervalContains, IntervalDuration,
         PointInInterval, QuantizeLinear, QuantizeSymmetric, Dequantize, DequantizeScaled, EuclideanInt8, CosineInt8, DotProductInt8,
         ManhattanInt8, LshProbes, LshMultiProbe, AbsInt64, AbsFloat64, Abs, Sqrt, Pow, Log, Exp, Sin, Cos, Tan, Floor, Ceil, Sign, ToFloat,
         ToInt, Len, Upper, Lower, Trim, Substr, Replace, Concat, MinVal, MaxVal]
}
/// wildcard-free: a new variant breaks the build, so the list above stays complete
fn _builtins_exhaustive(b: &BuiltinFunc) {
    use BuiltinFunc::*;
    match b { Euclidean | Cosine | DotProduct | Manhattan | LshBucket | VecNormalize | VecDim | VecAdd | VecScale | TimeNow | TimeDiff | TimeAdd | TimeSub
        | TimeDecay | TimeDecayLinear | TimeBefore | TimeAfter | TimeBetween | WithinLast | IntervalsOverlap | IntervalContains | IntervalDuration
        | PointInInterval | QuantizeLinear | QuantizeSymmetric | Dequantize | DequantizeScaled | EuclideanInt8 | CosineInt8 | DotProductInt8
        | ManhattanInt8 | LshProbes | LshMultiProbe | AbsInt64 | AbsFloat64 | Abs | Sqrt | Pow | Log | Exp | Sin | Cos | Tan | Floor | Ceil | Sign | ToFloat
        | ToInt | Len | Upper | Lower | Trim | Substr | Replace | Concat | MinVal | MaxVal => {} }
}
fn exec_builtins() -> String {
    let mut names = vec![];
    for b in all_builtins() {
        let n = b.as_str();
        if BuiltinFunc::parse(n).as_ref() != Some(&b) || BuiltinFunc::parse(&n.to_uppercase()).as_ref() != Some(&b) { return format!("parse-as_str-mismatch:{n}"); }
        names.push(n.to_string());
    }
    names.sort();
    // names that must NOT be builtins (they are ordinary identifiers / aggregates in the generators)
    for n in ["count", "sum", "p", "q", "top_k", "x"] { if BuiltinFunc::parse(n).is_some() { return format!("unexpected-builtin:{n}"); } }
    names.join(",")
}

pub fn exec(req: &str) -> String {
    let mut it = req.splitn(3, ' ');
    let op = it.next().unwrap_or("");
    match op {
        "c09.builtins" => exec_builtins(),
        // a source with a non-finite float constant (`inf`, `NaN`, overflow) must not parse
        "c09.reject" => {
            let src = match it.next().and_then(unxhex) { Some(s) => s, None => return "bad-request".into() };
            if inputlayer::parse_rule(&src).is_ok() { "accepted".into() } else { "rejected".into() }
        }
        // tooling (not generated): print the request line for a source text, e.g. to build corpus files
        "c09.wire" => {
            let src = match it.next().and_then(unxhex) { Some(s) => s, None => return "bad-request".into() };
            match inputlayer::parse_rule(&src).ok().and_then(|r| wire_rule(&r)) { Some(w) => format!("{} {w}", xhex(&src)), None => "unparsed-or-unsupported".into() }
        }
        "c09.lit" => {
            // the literal as the real printer writes it, re-read by the real term parser
            let b = match it.next().and_then(|x| u64::from_str_radix(x, 16).ok()) { Some(b) => b, None => return "bad-request".into() };
            let f = f64::from_bits(b);
            if !f.is_finite() { return "bad-request".into(); }
            let text = Term::FloatConstant(f).to_string();
            let in_arith = inputlayer::ast::ArithExpr::from_float(f).to_string();
            if in_arith != text { return format!("term-and-arith-print-differently:{text}:{in_arith}"); }
            match inputlayer::parser::parse_term(&text) {
                Ok(Term::Constant(_)) => "int".into(),
                Ok(Term::FloatConstant(g)) => if g.to_bits() == b { "float".into() } else { "float-other-bits".into() },
                _ => "other".into(),
            }
        }
        "c09.rt" | "c09.e2e" => {
            let src = match it.next().and_then(unxhex) { Some(s) => s, None => return "bad-request".into() };
            let wire = it.next().unwrap_or("");
            if op == "c09.rt" { exec_rt(&src, wire) } else { exec_e2e(&src, wire) }
        }
        _ => "bad-request".into(),
    }
}

// ---------------------------------------------------------------- generators (source text)
const VARS: [&str; 12] = ["X", "Y", "Z", "V", "W1", "Val", "_t", "Abc_9", "V1e", "X2E", "Ee", "N0e"];
const INTS: [&str; 12] = ["0", "1", "2", "-1", "42", "-7", "100", "9223372036854775807", "-9223372036854775808", "007", "-0", "65536"];
const FLOATS: [&str; 26] = ["2.0", "1.5", "-0.5", "0.0", "-0.0", "1e10", "2.5e-3", "1.0e300", "9007199254740993.0", "0.1", "3.14159", "1e-7", "5e-324",
    "1.7976931348623157e308", "123456789012345680000.0", "9223372036854775808.0", "-9223372036854775808.0", "100.0", "1E5", ".5", "5.", "-2.50",
    "18446744073709551616.0", "0.30000000000000004", "1e22", "1e21"];
const STRS: [&str; 12] = ["\"a\"", "\"\"", "\"hello world\"", "\"a\\\"b\"", "\"é√\"", "\"a<b\"", "\"x=y\"", "\"a,b\"", "\"(\"", "\"it's\"", "\"a\\\\b\"", "\"<-\""];
const FUNCS1: [&str; 8] = ["abs", "sqrt", "normalize", "vec_dim", "to_float", "upper", "len", "floor"];
const FUNCS2: [&str; 6] = ["euclidean", "cosine", "dot", "pow", "min_val", "vec_add"];
const AGGS: [&str; 7] = ["count", "sum", "min", "max", "avg", "count_distinct", "COUNT"];
const RELS: [&str; 6] = ["p", "q", "r", "edge", "rel_2", "T"];

fn sp(ctx: &mut Ctx) -> &'static str { if ctx.chance(1, 3) { " " } else { "" } }
fn var(ctx: &mut Ctx) -> String { if ctx.chance(1, 6) { VARS[8 + ctx.below(4)].into() } else { VARS[ctx.below(8)].into() } }
fn float_lit(ctx: &mut Ctx) -> String {
    if ctx.chance(1, 4) { let f = f64::from_bits(ctx.next()); if f.is_finite() { return if ctx.chance(1, 2) { format!("{:?}", f) } else { format!("{:e}", f) }; } }
    (*ctx.pick(&FLOATS)).into()
}
fn arith_leaf(ctx: &mut Ctx) -> String {
    match ctx.below(10) { 0..=5 => var(ctx), 6 | 7 => (*ctx.pick(&INTS)).into(), _ => float_lit(ctx) }
}
/// (text, precedence of the root: 0 add-level, 1 mul-level, 2 leaf/parenthesised)
fn arith(ctx: &mut Ctx, depth: usize) -> (String, u8) {
    if depth == 0 || ctx.chance(1, 4) { let l = arith_leaf(ctx); return if ctx.chance(1, 12) { (format!("({l})"), 2) } else { (l, 2) }; }
    let op = *ctx.pick(&["+", "-", "*", "/", "%"]);
    let prec = if op == "+" || op == "-" { 0 } else { 1 };
    let (l, lp) = arith(ctx, depth - 1); let (r, rp) = arith(ctx, depth - 1);
    // parenthesise where the grammar needs it, sometimes also where it does not, sometimes not at all
    let l = if lp < prec || ctx.chance(1, 10) { format!("({l})") } else { l };
    let r = if (rp <= prec && ctx.chance(5, 6)) || ctx.chance(1, 10) { format!("({r})") } else { r };
    let s = sp(ctx);
    (format!("{l}{s}{op}{s}{r}"), prec)
}
fn arith_term(ctx: &mut Ctx) -> String { loop { let d = 1 + ctx.below(5); let (s, p) = arith(ctx, d); if p < 2 { return s; } } }
fn vector(ctx: &mut Ctx) -> String { let n = ctx.below(4); format!("[{}]", (0..n).map(|_| (*ctx.pick(&["1.0", "0.0", "2.5", "-1", "3", "1e3", "0.25"])).to_string()).collect::<Vec<_>>().join(if ctx.chance(1, 2) { ", " } else { "," })) }
fn simple_term(ctx: &mut Ctx) -> String {
    match ctx.below(16) { 0..=6 => var(ctx), 7 | 8 => (*ctx.pick(&INTS)).into(), 9 | 10 => float_lit(ctx), 11 => (*ctx.pick(&STRS)).into(),
        12 => (*ctx.pick(&["true", "false"])).into(), 13 => "_".into(), 14 => vector(ctx), _ => arith_term(ctx) }
}
fn call(ctx: &mut Ctx) -> String {
    let a = |ctx: &mut Ctx| match ctx.below(6) { 0..=2 => var(ctx), 3 => arith_term(ctx), 4 => vector(ctx), _ => (*ctx.pick(&FLOATS)).into() };
    if ctx.chance(1, 2) { let f = ctx.pick(&FUNCS1); format!("{f}({})", a(ctx)) } else { let f = ctx.pick(&FUNCS2); format!("{f}({}, {})", a(ctx), a(ctx)) }
}
fn atom(ctx: &mut Ctx, head: bool) -> String {
    let n = 1 + ctx.below(3);
    let mut args: Vec<String> = (0..n).map(|_| if ctx.chance(3, 5) { var(ctx) } else { simple_term(ctx) }).collect();
    if head && ctx.chance(1, 6) { let f = ctx.pick(&AGGS); let v = var(ctx); args.push(format!("{f}<{v}>")); }
    if ctx.chance(1, 12) { args.push(call(ctx)); }
    if ctx.chance(1, 10) { let i = ctx.below(args.len()); args[i] = arith_term(ctx); }
    // a blank before the closing parenthesis lets `parse_atom` accept a last argument that itself ends in `)`
    let close = if ctx.chance(1, 3) { " )" } else { ")" };
    format!("{}({}{close}", ctx.pick(&RELS), args.join(if ctx.chance(1, 4) { "," } else { ", " }))
}
fn cmp_side(ctx: &mut Ctx) -> String {
    match ctx.below(12) { 0..=4 => var(ctx), 5 => (*ctx.pick(&INTS)).into(), 6 | 7 => float_lit(ctx), 8 | 9 => arith_term(ctx), 10 => call(ctx), _ => (*ctx.pick(&STRS)).into() }
}
fn literal(ctx: &mut Ctx) -> String {
    match ctx.below(10) {
        0..=4 => atom(ctx, false), 5 | 6 => format!("!{}", atom(ctx, false)),
        _ => { let op = *ctx.pick(&["=", "!=", "<", "<=", ">", ">="]); format!("{} {op} {}", cmp_side(ctx), cmp_side(ctx)) }
    }
}
fn rule_text(ctx: &mut Ctx) -> String {
    let h = atom(ctx, true);
    if ctx.chance(1, 25) { return h; }
    let n = 1 + ctx.below(3);
    let body: Vec<String> = (0..n).map(|_| literal(ctx)).collect();
    format!("{h} <- {}", body.join(if ctx.chance(1, 5) { "," } else { ", " }))
}
/// a rule whose only special feature is the given term in the given position — the chosen shapes
fn focused(ctx: &mut Ctx, t: &str, pos: usize) -> String {
    match pos {
        0 => format!("p(X, {t}) <- q(X)"),
        1 => format!("p(X) <- q(X, {t})"),
        2 => format!("p(X) <- q(X, Y), Y >= {t}"),
        3 => format!("p(X, Z) <- q(X, Y), Z = Y * {t}"),
        4 => format!("p(X, Z) <- q(X, Y), Z = {t} - Y"),
        5 => format!("p(X) <- q(X, Y), !r(Y, {t})"),
        6 => format!("p(X, Z) <- q(X, {}), Z = abs({t})", var(ctx)),
        _ => format!("p({t} ) <- q(X)"),
    }
}

fn emit(op: &str, src: &str, ctx: &mut Ctx, out: &mut Vec<String>, stat: &str) {
    match inputlayer::parse_rule(src) {
        Err(_) => ctx.count("gen_unparsable_source"),
        Ok(r) => match wire_rule(&r) {
            None => ctx.count("gen_outside_modelled_grammar"),
            Some(w) => { out.push(format!("{op} {} {w}", xhex(src))); ctx.count(stat); }
        },
    }
}

const E2E: [&str; 23] = [
    "p(X, 2.0) <- q(X)", "p(X, 2.5) <- q(X)", "p(X, 2) <- q(X)", "p(X, -0.0) <- q(X)", "p(X, 1e10) <- q(X)", "p(X, \"k\") <- q(X)", "p(X, true) <- q(X)",
    "p(X) <- r(X, Y), Y >= 2.0", "p(X) <- r(X, Y), Y >= 1.75", "p(X) <- r(X, 2.0)", "p(X) <- r(X, 1.5)", "p(X, Z) <- r(X, Y), Z = Y * 2.0",
    "p(X, Z) <- r(X, Y), Z = Y * 2.5", "p(X, Z) <- ri(X, Y), Z = Y + 1.0", "p(X, Z) <- ri(X, Y), Z = Y - (1 - 2)", "p(X, Z) <- ri(X, Y), Z = 2*(Y+1 )",
    "p(X) <- s(X, true)", "p(X) <- s(X, B), B = false", "p(X, D) <- v(X, V), D = euclidean(V, [1.0, 0.0])", "p(X, Z) <- ri(X, Y), W = Y - 3, Z = abs(W)", "p(X, Z) <- ri(X, Y), Z = Y * inf",
    "p(X) <- q(X), !s(X, true)", "p(X, N0e) <- ri(X, N0e), Z = N0e - 1, Z > 0",
];

fn gen_lits(ctx: &mut Ctx, out: &mut Vec<String>) {
    let mut push = |f: f64, ctx: &mut Ctx, k: &str| { if f.is_finite() { out.push(format!("c09.lit {:016x}", f.to_bits())); ctx.count(k); } };
    // boundaries of "integral and within i64": +-2^63, their neighbours, 2^52..2^54, halves, zeros, subnormals, specials
    for e in [0i32, 1, 2, 10, 31, 32, 51, 52, 53, 54, 61, 62, 63, 64, 100, 1023] {
        let p = 2f64.powi(e);
        for f in [p, -p, f64::from_bits(p.to_bits() + 1), f64::from_bits(p.to_bits() - 1), -f64::from_bits(p.to_bits() + 1), -f64::from_bits(p.to_bits() - 1), p + 0.5, p - 0.5, p * 1.5, -(p * 1.5)] { push(f, ctx, "lit_boundary"); }
    }
    for f in [0.0, -0.0, 0.5, -0.5, 1e-300, 5e-324, -5e-324, f64::MIN_POSITIVE, f64::MAX, f64::MIN, f64::INFINITY, f64::NEG_INFINITY, f64::NAN,
              9007199254740993.0, 9223372036854775807.0, -9223372036854775808.0, -9223372036854777856.0, 1e15, 1e16, 1e22, 1e23, 123456.0, 123456.5] { push(f, ctx, "lit_boundary"); }
    for _ in 0..ctx.budget(1500, 20000) {
        let f = match ctx.below(4) {
            0 => f64::from_bits(ctx.next()),
            1 => (ctx.next() as i64) as f64,                                   // integers over the whole i64 range (rounded to f64)
            2 => (ctx.range(-1_000_000, 1_000_000) as f64) / (*ctx.pick(&[1.0, 2.0, 4.0, 10.0, 1024.0])),
            _ => { let e = ctx.range(1000, 1100) as u64; f64::from_bits((ctx.next() & 0x800f_ffff_ffff_ffff) | (e << 52)) }  // exponents around the integrality / range thresholds
        };
        push(f, ctx, "lit_random");
    }
}

pub fn gen(ctx: &mut Ctx) -> Vec<String> {
    let mut out = vec!["c09.builtins".to_string()];
    gen_lits(ctx, &mut out);
    for nf in ["inf", "-inf", "NaN", "infinity", "1e999", "nan", "-1e400"] {
        for t in ["p(X, Z) <- q(X, Y), Z = Y * {}", "p(X, Z) <- q(X, Y), Z = {} + Y", "p(X) <- q(X, Y), Y > 1 - {}", "p(top_k_threshold<3, {}, S>) <- q(N, S)", "p(within_radius<{}, D>) <- q(N, D)"] {
            out.push(format!("c09.reject {}", xhex(&t.replace("{}", nf)))); ctx.count("reject_nonfinite");
        }
    }
    // (1) chosen shapes: every literal kind in every position
    let mut lits: Vec<String> = vec![];
    lits.extend(FLOATS.iter().map(|s| s.to_string())); lits.extend(INTS.iter().map(|s| s.to_string())); lits.extend(STRS.iter().map(|s| s.to_string()));
    lits.extend(["true", "false", "_", "[1.0, 2.0]", "[1.5, 2.25]", "[]", "[1]", "X + 1", "X - -1", "(Y + 1) * 2", "2 * (Y + 1)", "Y - (1 - 2)", "Y / 2.5e-3",
                 "Y * 2.0", "V1e - 1", "V1e + X", "2 * V1e + 1", "X2E+1", "V1e * 2", "abs(Y - 3)", "euclidean(V, [1.0, 0.0])", "Y % 3", "0 - Y", "inf + 1",
                 "Y + 2.0", "Y + -0.0", "Y*1e300", "count<Y>", "X*(Y*Z)", "X/(Y/Z)", "X-(Y-Z)", "X-(Y+Z)", "(X-Y)-Z", "(X*Y)%Z"].iter().map(|s| s.to_string()));
    for t in &lits { for pos in 0..8 { let s = focused(ctx, t, pos); emit("c09.rt", &s, ctx, &mut out, "rt_focused"); } }
    // (2) arithmetic of depth <= 5 with every operator pair
    for _ in 0..ctx.budget(1500, 15000) { let e = arith_term(ctx); let s = format!("p(X, Z) <- q(X, Y), Z = {e}"); emit("c09.rt", &s, ctx, &mut out, "rt_arith"); }
    // (3) random rules over the whole modelled grammar
    for _ in 0..ctx.budget(4000, 40000) { let s = rule_text(ctx); emit("c09.rt", &s, ctx, &mut out, "rt_random"); }
    // (4) end to end
    for s in E2E.iter() { emit("c09.e2e", s, ctx, &mut out, "e2e_fixed"); }
    for _ in 0..ctx.budget(120, 600) {
        let t: String = match ctx.below(6) { 0 | 1 => (*ctx.pick(&FLOATS)).into(), 2 => (*ctx.pick(&INTS)).into(), 3 => format!("{:?}", f64::from_bits(ctx.next())), _ => format!("{:?}", ctx.range(-3, 3) as f64 / 2.0) };
        let any: String = if ctx.chance(1, 3) { (*ctx.pick(&["\"a\"", "true", "false"])).into() } else { t.clone() };
        let t = if t.contains("NaN") || t.contains("inf") { "1.5".to_string() } else { t };
        let s = match ctx.below(5) {
            0 => format!("p(X, {any}) <- q(X)"), 1 => format!("p(X) <- r(X, Y), Y >= {t}"), 2 => format!("p(X, Z) <- r(X, Y), Z = Y * {t}"),
            3 => format!("p(X, Z) <- ri(X, Y), Z = Y + {t}"), _ => format!("p(X) <- r(X, {t})"),
        };
        emit("c09.e2e", &s, ctx, &mut out, "e2e_random");
    }
    out
}
pub const TGEN: Option<fn() -> String> = None;
