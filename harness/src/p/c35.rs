//! C35 — real `compare_wire_values` / `sort_rows` / `apply_pagination` (through the cfg accessors
//! `protocol::handler::verif_order`) and the same pipeline end-to-end through `Handler::execute_program`.
use crate::common::*;
use inputlayer::protocol::handler::verif_order as vo;
use inputlayer::protocol::handler::Handler;
use inputlayer::protocol::wire::{WireTuple, WireValue};
use inputlayer::statement::parser::SortDirection;
use inputlayer::Config;

fn wv_to_wire(v: &WireValue) -> String {
    match v {
        WireValue::Null => "null".into(),
        WireValue::Int32(n) => format!("i32:{n}"),
        WireValue::Int64(n) => format!("i64:{n}"),
        WireValue::Float64(f) => format!("f64:{:016x}", f.to_bits()),
        WireValue::String(s) => format!("s:{}", hex(s.as_bytes())),
        WireValue::Bool(b) => format!("b:{}", if *b { 1 } else { 0 }),
        WireValue::Timestamp(t) => format!("ts:{t}"),
        WireValue::Vector(v) => format!("v:{}", v.iter().map(|f| format!("{:08x}", f.to_bits())).collect::<Vec<_>>().join("/")),
        WireValue::VectorInt8(v) => format!("v8:{}", v.iter().map(|i| i.to_string()).collect::<Vec<_>>().join("/")),
        WireValue::Bytes(b) => format!("by:{}", hex(b)),
    }
}
fn wv_of_wire(s: &str) -> Option<WireValue> {
    if s == "null" { return Some(WireValue::Null); }
    let (k, r) = s.split_once(':')?;
    Some(match k {
        "i32" => WireValue::Int32(r.parse().ok()?),
        "i64" => WireValue::Int64(r.parse().ok()?),
        "ts" => WireValue::Timestamp(r.parse().ok()?),
        "f64" => WireValue::Float64(f64::from_bits(u64::from_str_radix(r, 16).ok()?)),
        "s" => WireValue::String(String::from_utf8(unhex(r)?).ok()?),
        "b" => match r { "1" => WireValue::Bool(true), "0" => WireValue::Bool(false), _ => return None },
        "v" => WireValue::Vector(if r.is_empty() { vec![] } else { r.split('/').map(|x| u32::from_str_radix(x, 16).map(f32::from_bits)).collect::<Result<Vec<_>, _>>().ok()? }),
        "v8" => WireValue::VectorInt8(if r.is_empty() { vec![] } else { r.split('/').map(|x| x.parse::<i8>()).collect::<Result<Vec<_>, _>>().ok()? }),
        "by" => WireValue::Bytes(unhex(r)?),
        _ => return None,
    })
}
fn row_to_wire(t: &[WireValue]) -> String { if t.is_empty() { "()".into() } else { t.iter().map(wv_to_wire).collect::<Vec<_>>().join(",") } }
fn row_of_wire(s: &str) -> Option<Vec<WireValue>> { if s == "()" { Some(vec![]) } else { s.split(',').map(wv_of_wire).collect() } }

const P53: i64 = 1 << 53;

fn wire_pool() -> Vec<WireValue> {
    use WireValue::*;
    let f = |x: f64| Float64(x);
    vec![
        Null, Bool(false), Bool(true), Int32(-1), Int32(0), Int32(7), Int32(i32::MAX),
        Int64(i64::MIN), Int64(-P53 - 1), Int64(-P53), Int64(-1), Int64(0), Int64(1), Int64(2), Int64(P53 - 1), Int64(P53), Int64(P53 + 1), Int64(P53 + 2), Int64(P53 + 3), Int64(i64::MAX - 1), Int64(i64::MAX),
        f(0.0), f(-0.0), f(1.0), f(1.5), f(2.0), f(-1.0), f(9007199254740992.0), f(9007199254740994.0), f(-9007199254740992.0), f(9223372036854775808.0), f(-9223372036854775808.0),
        f(f64::INFINITY), f(f64::NEG_INFINITY), f(f64::NAN), f(f64::from_bits(0xfff8000000000001)), f(f64::MIN_POSITIVE / 2.0), f(f64::MAX),
        String("".into()), String("a".into()), String("ab".into()), String("b".into()), String("é".into()),
        Timestamp(-1), Timestamp(0), Timestamp(5),
        Vector(vec![]), Vector(vec![1.0]), Vector(vec![0.0, 2.0]), VectorInt8(vec![1]), VectorInt8(vec![-1, 2]), Bytes(vec![]), Bytes(vec![0, 255]),
    ]
}

/// one column value according to a column profile
fn col_value(ctx: &mut Ctx, profile: usize) -> WireValue {
    use WireValue::*;
    match profile {
        0 => Int64(ctx.range(0, 4)),                                                         // small ints, many ties
        1 => if ctx.chance(1, 2) { Int64(ctx.range(-3, 3)) } else { Float64(ctx.range(-6, 6) as f64 / 2.0) }, // exact int/float mix
        2 => match ctx.below(5) { 0 => Float64(f64::NAN), 1 => Int64(ctx.range(-3, 3)), _ => Float64(ctx.range(-6, 6) as f64 / 2.0) }, // NaN among numbers
        3 => match ctx.below(4) {                                                            // around ±2^53, ints and floats
            0 => Float64(*ctx.pick(&[9007199254740992.0f64, 9007199254740994.0, 9007199254740996.0, -9007199254740992.0])),
            _ => { let d = ctx.range(-2, 5); if ctx.chance(1, 6) { Int64(-P53 - d) } else { Int64(P53 + d) } }
        },
        4 => String((0..ctx.below(3)).map(|_| *ctx.pick(&['a', 'b', 'é'])).collect()),
        5 => Float64(match ctx.below(6) { 0 => 0.0, 1 => -0.0, 2 => f64::INFINITY, 3 => f64::NEG_INFINITY, 4 => f64::from_bits(ctx.next()), _ => ctx.range(-4, 4) as f64 }),
        6 => match ctx.below(3) { 0 => Int32(ctx.range(-2, 5) as i32), 1 => Int64(ctx.range(-2, 5)), _ => Timestamp(ctx.range(-2, 5)) },
        _ => { let p = wire_pool(); p[ctx.below(p.len())].clone() }                          // anything
    }
}

fn gen_query(ctx: &mut Ctx, op: &str) -> String {
    let arity = 1 + ctx.below(3);
    let profiles: Vec<usize> = (0..arity).map(|_| ctx.below(8)).collect();
    for p in &profiles { ctx.count(&format!("query.column-profile-{}", ["small-int", "int-float", "nan", "2^53", "string", "float-special", "int-widths-ts", "any"][*p])); }
    let n = match ctx.below(10) { 0 => 0, 1 => 1, 2 => 2, 3..=6 => 2 + ctx.below(19), _ => 21 + ctx.below(if ctx.thorough { 40 } else { 30 }) };
    ctx.count(if n <= 20 { "query.rows<=20" } else { "query.rows>20" });
    let ragged = ctx.chance(1, 15);
    let rows: Vec<String> = (0..n).map(|_| {
        let a = if ragged && ctx.chance(1, 3) { ctx.below(arity + 1) } else { arity };
        let r: Vec<WireValue> = (0..a).map(|c| col_value(ctx, profiles[c])).collect();
        row_to_wire(&r)
    }).collect();
    let nk = match ctx.below(8) { 0 => 0, 1..=4 => 1, 5 | 6 => 2, _ => 3 };
    let keys: Vec<String> = (0..nk).map(|_| { let c = if ctx.chance(1, 20) { arity + ctx.below(2) } else { ctx.below(arity) }; format!("{}{}", c, if ctx.chance(1, 2) { 'a' } else { 'd' }) }).collect();
    ctx.count(&format!("query.keys={nk}"));
    let limit = match ctx.below(6) { 0 | 1 => "-".to_string(), 2 => "0".into(), 3 => "1".into(), 4 => ctx.below(n + 3).to_string(), _ => (n + ctx.below(3)).to_string() };
    let offset = match ctx.below(6) { 0 | 1 => "-".to_string(), 2 => "0".into(), 3 => "1".into(), 4 => ctx.below(n + 3).to_string(), _ => (n + ctx.below(2)).to_string() };
    format!("{} {} {} {} | {}", op, if keys.is_empty() { "-".to_string() } else { keys.join(",") }, limit, offset, rows.join(" ; "))
}

/// end-to-end cases. Mode A: one kind per column, distinct rows, every column annotated — the answer is
/// unique. Mode B (1 in 6): one column mixing Int64 around 2^53 with Float64 2^53.. — the shape DESIGN §7
/// expects to break the comparator; up to 40 rows so that std's driftsort (len > 20) is reached.
fn gen_e2e(ctx: &mut Ctx) -> String {
    if ctx.chance(1, 6) {
        let n = 3 + ctx.below(38);
        let mut rows: Vec<String> = vec![];
        for _ in 0..n {
            let v = if ctx.chance(1, 3) { WireValue::Float64(*ctx.pick(&[9007199254740992.0f64, 9007199254740994.0, 9007199254740996.0, 4.5])) } else { WireValue::Int64(P53 + ctx.range(-3, 30)) };
            let w = row_to_wire(&[v]);
            if !rows.contains(&w) { rows.push(w); }
        }
        ctx.count("e2e.2^53-mix");
        let big = ctx.chance(1, 2);
        return format!("c35.e2e 0{} {} - | {}", if ctx.chance(1, 2) { 'a' } else { 'd' }, if big { "-".to_string() } else { ctx.below(n).to_string() }, rows.join(" ; "));
    }
    let arity = 1 + ctx.below(3);
    let kinds: Vec<usize> = (0..arity).map(|_| ctx.below(3)).collect();
    let n = 1 + ctx.below(8);
    let mut rows: Vec<String> = vec![];
    for _ in 0..n {
        let r: Vec<WireValue> = kinds.iter().map(|k| match k {
            0 => WireValue::Int64(ctx.range(-3, 6)),
            1 => WireValue::String(ctx.pick(&["a", "b", "ab", "c"]).to_string()),
            _ => WireValue::Float64(ctx.range(-4, 4) as f64 + 0.5),
        }).collect();
        let w = row_to_wire(&r);
        if !rows.contains(&w) { rows.push(w); }
    }
    let keys: Vec<String> = (0..arity).map(|c| format!("{}{}", c, if ctx.chance(1, 2) { 'a' } else { 'd' })).collect();
    let limit = match ctx.below(4) { 0 => "-".to_string(), _ => ctx.below(n + 2).to_string() };
    let offset = if limit == "-" { "-".to_string() } else { match ctx.below(3) { 0 => "-".to_string(), _ => ctx.below(n + 2).to_string() } };
    ctx.count("e2e.unique-answer");
    format!("c35.e2e {} {} {} | {}", keys.join(","), limit, offset, rows.join(" ; "))
}

pub fn gen(ctx: &mut Ctx) -> Vec<String> {
    let mut out = vec![];
    let pool = wire_pool();
    let w = |v: &Option<WireValue>| match v { Some(v) => wv_to_wire(v), None => "-".to_string() };
    // comparator: all ordered pairs (with None) as degenerate triples, then all numeric triples, then sampled triples
    let mut opts: Vec<Option<WireValue>> = pool.iter().cloned().map(Some).collect(); opts.push(None);
    for a in &opts { for b in &opts { out.push(format!("c35.cmp {} {} {}", w(a), w(b), w(a))); } }
    ctx.add("cmp.pairs", (opts.len() * opts.len()) as u64);
    let num: Vec<Option<WireValue>> = pool.iter().filter(|v| matches!(v, WireValue::Int64(_) | WireValue::Float64(_))).cloned().map(Some).collect();
    let step = if ctx.thorough { 1 } else { 2 };
    let mut k = 0usize;
    for a in &num { for b in &num { for c in &num { k += 1; if k % step == 0 { out.push(format!("c35.cmp {} {} {}", w(a), w(b), w(c))); ctx.count("cmp.numeric-triples"); } } } }
    for _ in 0..ctx.budget(3000, 40000) {
        let (a, b, c) = (ctx.pick(&opts).clone(), ctx.pick(&opts).clone(), ctx.pick(&opts).clone());
        out.push(format!("c35.cmp {} {} {}", w(&a), w(&b), w(&c))); ctx.count("cmp.sampled-triples");
    }
    // the documented witnesses, as queries
    out.push("c35.query 0a - - | f64:4008000000000000 ; f64:7ff8000000000000 ; f64:3ff0000000000000".into());
    out.push(format!("c35.query 0a - - | i64:{} ; f64:4340000000000000 ; i64:{}", P53 + 1, P53));
    for _ in 0..ctx.budget(2500, 14000) { out.push(gen_query(ctx, "c35.query")); }
    for _ in 0..ctx.budget(120, 1500) { out.push(gen_e2e(ctx)); }
    for _ in 0..ctx.budget(60, 600) {
        let big = ctx.chance(1, 4); let n = 2 + ctx.below(if big { 30 } else { 8 });
        let rows: Vec<String> = (0..n).map(|i| row_to_wire(&[WireValue::Int64(i as i64 + 1), WireValue::Float64(ctx.range(-8, 8) as f64 / 2.0), WireValue::Int64(if ctx.chance(1, 4) { 1 } else { 0 })])).collect();
        let limit = match ctx.below(3) { 0 => "-".to_string(), _ => ctx.below(n + 1).to_string() };
        let offset = if limit == "-" || ctx.chance(1, 2) { "-".to_string() } else { ctx.below(n + 1).to_string() };
        out.push(format!("c35.e2enan 1{} {} {} | {}", if ctx.chance(1, 2) { 'a' } else { 'd' }, limit, offset, rows.join(" ; ")));
        ctx.count("e2e.computed-nan-column");
    }
    out.push("c35.query 0x - - | i64:1".into());
    out.push("c35.query 0a - - | i65:1".into());
    out.push("c35.cmp i64:1 i64:2".into());
    ctx.add("malformed", 3);
    out
}

fn parse_keys(s: &str) -> Option<Vec<(usize, SortDirection)>> {
    if s == "-" { return Some(vec![]); }
    s.split(',').map(|k| {
        if k.len() < 2 { return None; }
        let (c, d) = k.split_at(k.len() - 1);
        let dir = match d { "a" => SortDirection::Asc, "d" => SortDirection::Desc, _ => return None };
        Some((c.parse::<usize>().ok()?, dir))
    }).collect()
}
fn parse_opt(s: &str) -> Option<Option<usize>> { if s == "-" { Some(None) } else { s.parse::<usize>().ok().map(Some) } }

struct Q { keys: Vec<(usize, SortDirection)>, limit: Option<usize>, offset: Option<usize>, rows: Vec<Vec<WireValue>> }
fn parse_q(rest: &str) -> Option<Q> {
    let (hd, items) = match rest.split_once(" | ") { Some((c, i)) => (c, i), None => (rest.strip_suffix(" |").unwrap_or(rest), "") };
    let h: Vec<&str> = hd.split(' ').collect();
    if h.len() != 3 { return None; }
    let rows = if items.is_empty() { vec![] } else { items.split(" ; ").map(row_of_wire).collect::<Option<Vec<_>>>()? };
    Some(Q { keys: parse_keys(h[0])?, limit: parse_opt(h[1])?, offset: parse_opt(h[2])?, rows })
}
fn page_out(total: usize, rows: &[Vec<WireValue>]) -> String {
    format!("total={} rows={}", total, if rows.is_empty() { "-".to_string() } else { rows.iter().map(|r| row_to_wire(r)).collect::<Vec<_>>().join("+") })
}

fn exec_query(rest: &str) -> String {
    let q = match parse_q(rest) { Some(q) => q, None => return "bad-request".into() };
    let rows: Vec<WireTuple> = q.rows.into_iter().map(WireTuple::new).collect();
    let keys = q.keys.clone();
    // the call site: sort_rows; total_count = rows.len(); apply_pagination   (handler.rs:3818-3823)
    let r = std::panic::catch_unwind(move || {
        let sorted = vo::sort_rows(rows, &keys);
        let total = sorted.len();
        (total, vo::apply_pagination(sorted, q.limit, q.offset))
    });
    match r {
        Ok((total, page)) => page_out(total, &page.into_iter().map(|t| t.values).collect::<Vec<_>>()),
        Err(_) => "panic".into(),
    }
}

/// IQL literal of a value, for the values the end-to-end path can express (mirrored by `litOk` in Drv/C35.lean)
fn lit(v: &WireValue) -> Option<String> {
    Some(match v {
        WireValue::Int64(n) if n.unsigned_abs() <= 1u64 << 62 => n.to_string(),
        WireValue::Float64(f) if f.is_finite() && (f * 2.0).fract() == 0.0 && f.abs() < 9007199254742016.0 && f.to_bits() != 1u64 << 63 => format!("{:?}", f),
        WireValue::String(s) if s.chars().all(|c| c.is_ascii_alphanumeric()) => format!("\"{s}\""),
        _ => return None,
    })
}

fn exec_e2e(rest: &str) -> String {
    let q = match parse_q(rest) { Some(q) => q, None => return "bad-request".into() };
    let arity = q.keys.len();
    if arity == 0 || q.rows.iter().any(|r| r.len() != arity) { return "bad-request".into(); }
    if q.rows.is_empty() { return "bad-request".into(); }
    let mut facts = vec![];
    for r in &q.rows { match r.iter().map(lit).collect::<Option<Vec<_>>>() { Some(l) => facts.push(format!("({})", l.join(", "))), None => return "bad-request".into() } }
    let args: Vec<String> = (0..arity).map(|c| match q.keys.iter().find(|k| k.0 == c) { Some((_, SortDirection::Asc)) => format!("X{c}:asc"), Some((_, SortDirection::Desc)) => format!("X{c}:desc"), None => format!("X{c}") }).collect();
    if q.keys.iter().enumerate().any(|(i, k)| k.0 != i) { return "bad-request".into(); }
    let lim = match (q.limit, q.offset) { (Some(n), Some(o)) => format!(", limit({n}, {o})"), (Some(n), None) => format!(", limit({n})"), (None, None) => String::new(), (None, Some(_)) => return "bad-request".into() };
    let d = tempfile::TempDir::new().unwrap();
    let mut c = Config::default(); c.storage.data_dir = d.path().to_path_buf(); c.storage.performance.num_threads = 1;
    let rt = tokio::runtime::Builder::new_multi_thread().worker_threads(1).enable_all().build().unwrap();
    let res = rt.block_on(async {
        let h = Handler::from_config(c).map_err(|e| format!("handler: {e}"))?;
        let kg = Some("default".to_string());
        h.execute_program(None, kg.clone(), format!("+r[{}]", facts.join(", ")), None).await?;
        h.execute_program(None, kg, format!("?r({}){}", args.join(", "), lim), None).await
    });
    match res {
        Ok(qr) => page_out(qr.total_count, &qr.rows.into_iter().map(|t| t.values).collect::<Vec<_>>()),
        // the query job runs in a blocking task; a panic inside it (here: `sort_by` detecting an inconsistent
        // comparator) is reported by the handler as this fixed message (handler.rs:2416-2418 / 2434-2436)
        Err(e) if e.contains("Internal query execution error") => "panic".into(),
        Err(e) => format!("err:{}", e.chars().take(60).collect::<String>().replace(' ', "_")),
    }
}

/// end-to-end with a *computed* sort column that can be NaN: facts r(X, Y, F); the query sorts
/// `q(X, W) <- r(X, Y, F), Z = F * 1e308 * 10.0, W = Z - Z + Y` on W (W = Y if F = 0, inf - inf = NaN if F = 1).
/// NaN payload/sign is canonicalised to 7ff8000000000000 in the output.
fn exec_e2enan(rest: &str) -> String {
    let q = match parse_q(rest) { Some(q) => q, None => return "bad-request".into() };
    if q.rows.is_empty() || q.keys.len() != 1 || q.keys[0].0 != 1 || (q.limit.is_none() && q.offset.is_some()) { return "bad-request".into(); }
    let mut facts = vec![];
    for r in &q.rows {
        match r.as_slice() {
            [x @ WireValue::Int64(_), y @ WireValue::Float64(_), WireValue::Int64(f)] if *f == 0 || *f == 1 => match (lit(x), lit(y)) { (Some(x), Some(y)) => facts.push(format!("({x}, {y}, {f})")), _ => return "bad-request".into() },
            _ => return "bad-request".into(),
        }
    }
    let dir = match q.keys[0].1 { SortDirection::Asc => "asc", SortDirection::Desc => "desc" };
    let lim = match (q.limit, q.offset) { (Some(n), Some(o)) => format!(", limit({n}, {o})"), (Some(n), None) => format!(", limit({n})"), _ => String::new() };
    let d = tempfile::TempDir::new().unwrap();
    let mut c = Config::default(); c.storage.data_dir = d.path().to_path_buf(); c.storage.performance.num_threads = 1;
    let rt = tokio::runtime::Builder::new_multi_thread().worker_threads(1).enable_all().build().unwrap();
    let res = rt.block_on(async {
        let h = Handler::from_config(c).map_err(|e| format!("handler: {e}"))?;
        let kg = Some("default".to_string());
        h.execute_program(None, kg.clone(), format!("+r[{}]", facts.join(", ")), None).await?;
        h.execute_program(None, kg, format!("q(X, W) <- r(X, Y, F), Z = F * 1e308 * 10.0, W = Z - Z + Y\n?q(X, W:{dir}){lim}"), None).await
    });
    match res {
        Ok(qr) => page_out(qr.total_count, &qr.rows.into_iter().map(|t| t.values.into_iter().map(|v| match v { WireValue::Float64(f) if f.is_nan() => WireValue::Float64(f64::from_bits(0x7ff8000000000000)), v => v }).collect()).collect::<Vec<_>>()),
        // the query job runs in a blocking task; a panic inside it (here: `sort_by` detecting an inconsistent
        // comparator) is reported by the handler as this fixed message (handler.rs:2416-2418 / 2434-2436)
        Err(e) if e.contains("Internal query execution error") => "panic".into(),
        Err(e) => format!("err:{}", e.chars().take(60).collect::<String>().replace(' ', "_")),
    }
}

/// exploration aid (never generated): run hex-encoded program lines (separated by `/`) through the Handler
fn exec_probe(rest: &str) -> String {
    let d = tempfile::TempDir::new().unwrap();
    let mut c = Config::default(); c.storage.data_dir = d.path().to_path_buf(); c.storage.performance.num_threads = 1;
    let rt = tokio::runtime::Builder::new_multi_thread().worker_threads(1).enable_all().build().unwrap();
    let progs: Vec<String> = rest.split('/').filter_map(|h| unhex(h).and_then(|b| String::from_utf8(b).ok())).collect();
    rt.block_on(async {
        let h = match Handler::from_config(c) { Ok(h) => h, Err(e) => return format!("handler: {e}") };
        let mut out = vec![];
        for p in progs {
            out.push(match h.execute_program(None, Some("default".to_string()), p, None).await {
                Ok(qr) => page_out(qr.total_count, &qr.rows.into_iter().map(|t| t.values).collect::<Vec<_>>()),
                Err(e) => format!("err:{}", e.replace(' ', "_")),
            });
        }
        out.join(" || ")
    })
}

fn exec_cmp(rest: &str) -> String {
    let p: Vec<&str> = rest.split(' ').collect();
    if p.len() != 3 { return "bad-request".into(); }
    let vs: Option<Vec<Option<WireValue>>> = p.iter().map(|s| if *s == "-" { Some(None) } else { wv_of_wire(s).map(Some) }).collect();
    let vs = match vs { Some(v) => v, None => return "bad-request".into() };
    let c = |a: &Option<WireValue>, b: &Option<WireValue>| ord_to_wire(vo::compare_wire_values(a.as_ref(), b.as_ref()));
    format!("{} {} {} {}", c(&vs[0], &vs[1]), c(&vs[1], &vs[2]), c(&vs[0], &vs[2]), c(&vs[1], &vs[0]))
}

pub fn exec(req: &str) -> String {
    let r = req.to_string();
    std::panic::catch_unwind(move || match r.split_once(' ') {
        Some(("c35.cmp", rest)) => exec_cmp(rest),
        Some(("c35.query", rest)) => exec_query(rest),
        Some(("c35.e2e", rest)) => exec_e2e(rest),
        Some(("c35.e2enan", rest)) => exec_e2enan(rest),
        Some(("c35.probe", rest)) => exec_probe(rest),
        _ => "bad-request".into(),
    }).unwrap_or_else(|_| "panic".into())
}

/// T-gen: the complete graph of `wire_value_type_rank` and of `compare_wire_values` on one
/// representative per variant (wildcard-free match: a new variant breaks the build).
fn kind_name(v: &WireValue) -> &'static str {
    match v {
        WireValue::Null => "null", WireValue::Int32(_) => "i32", WireValue::Int64(_) => "i64", WireValue::Float64(_) => "f64",
        WireValue::String(_) => "str", WireValue::Bool(_) => "bool", WireValue::Timestamp(_) => "ts", WireValue::Vector(_) => "vec",
        WireValue::VectorInt8(_) => "vec8", WireValue::Bytes(_) => "bytes",
    }
}
fn tgen() -> String {
    use WireValue::*;
    let reps = vec![Null, Int32(1), Int64(1), Float64(1.0), String("a".into()), Bool(true), Timestamp(1), Vector(vec![1.0]), VectorInt8(vec![1]), Bytes(vec![1])];
    let mut s = std::string::String::from("-- generated by `ilvh gen C35` from the current /repo tree — do not edit\nnamespace ILV.Gen.C35\n");
    s.push_str("/-- `wire_value_type_rank` per variant. -/\ndef wireRank : List (String × Nat) := [\n");
    s.push_str(&reps.iter().map(|v| format!("  (\"{}\", {})", kind_name(v), vo::wire_value_type_rank(v))).collect::<Vec<_>>().join(",\n"));
    s.push_str("]\n/-- `compare_wire_values` on the representatives null, 1:i32, 1:i64, 1.0, \"a\", true, ts 1, [1.0], [1]:i8, bytes[1]. -/\ndef wireCross : List (String × String × String) := [\n");
    let mut rows = vec![];
    for a in &reps { for b in &reps { rows.push(format!("  (\"{}\", \"{}\", \"{}\")", kind_name(a), kind_name(b), ord_to_wire(vo::compare_wire_values(Some(a), Some(b))))); } }
    s.push_str(&rows.join(",\n"));
    s.push_str("]\nend ILV.Gen.C35\n");
    s
}
pub const TGEN: Option<fn() -> String> = Some(tgen);
