//! C07 — answer tuples are well-formed sets (no duplicates, arity of the head, head constants in place).
//! `c07.run sssss:1:0 | facts ; rules` → the answer as the engine returns it (duplicates are kept).
use crate::common::*;
use crate::u::dl::*;

/// recursive min where group and aggregated variables come *directly* from the first body atom
/// (in head order with extra columns behind, extra column in front, aggregated column not adjacent,
/// two recursive clauses) — no computed column between the scan and the head.
fn minmax_direct_template(ctx: &mut Ctx) -> Vec<Rule> {
    let agg = |x: &str| H::A("min".to_string(), x.to_string());
    let base = rule("a", vec![hv("X"), agg("C")], vec![pos("f", vec![v("X"), v("C")])]);
    let r_behind = rule("a", vec![hv("X"), agg("C")], vec![pos("w", vec![v("X"), v("C"), v("Y")]), pos("a", vec![v("Y"), T::W])]);
    let r_front = rule("a", vec![hv("X"), agg("C")], vec![pos("w", vec![v("Y"), v("X"), v("C")]), pos("a", vec![v("Y"), T::W])]);
    let r_apart = rule("a", vec![hv("X"), agg("C")], vec![pos("w", vec![v("X"), v("Y"), v("C")]), pos("a", vec![v("Y"), T::W])]);
    let r_exact = rule("a", vec![hv("X"), agg("C")], vec![pos("e", vec![v("X"), v("C")]), pos("a", vec![v("X"), T::W])]);
    let mut rules = match ctx.below(5) {
        0 => vec![base, r_behind],
        1 => vec![base, r_front],
        2 => vec![base, r_apart],
        3 => vec![base, r_behind, r_exact],
        _ => vec![r_behind, base],
    };
    rules.push(rule("q", vec![hv("X"), hv("C")], vec![pos("a", vec![v("X"), v("C")])]));
    rules
}

fn minmax_template(ctx: &mut Ctx) -> Vec<Rule> {
    let f = "min"; // recursive max with a sum diverges in the engine (observed: no fix-point within 20 s), which would stall the run
    let agg = |x: &str| H::A(f.to_string(), x.to_string());
    let rec = rule("a", vec![hv("X"), hv("Z"), agg("D")], vec![pos("a", vec![v("X"), v("Y"), v("U")]), pos("w", vec![v("Y"), v("Z"), v("V")]), cmp("eq", ev("D"), eb("add", ev("U"), ev("V"))), cmp("le", ev("D"), E::C(9))]);
    let mut rules = vec![];
    match ctx.below(4) {
        0 => { rules.push(rule("a", vec![hv("X"), hv("Y"), agg("D")], vec![pos("w", vec![v("X"), v("Y"), v("D")])])); rules.push(rec); }
        1 => { rules.push(rule("a", vec![hv("X"), hv("Y"), hv("D")], vec![pos("w", vec![v("X"), v("Y"), v("D")])])); rules.push(rec); }
        2 => { rules.push(rec.clone()); rules.push(rule("a", vec![hv("X"), hv("Y"), agg("D")], vec![pos("w", vec![v("X"), v("Y"), v("D")])])); }
        _ => { rules.push(rule("a", vec![hv("X"), hv("Y"), agg("D")], vec![pos("w", vec![v("X"), v("Y"), v("D")])])); rules.push(rec);
               rules.push(rule("a", vec![hv("X"), hv("Z"), agg("D")], vec![pos("a", vec![v("X"), v("Y"), v("U")]), pos("e", vec![v("Y"), v("Z")]), cmp("eq", ev("D"), eb("add", ev("U"), E::C(1))), cmp("le", ev("D"), E::C(9))])); }
    }
    rules.push(rule("q", vec![hv("X"), hv("Y"), hv("D")], vec![pos("a", vec![v("X"), v("Y"), v("D")])]));
    rules
}

pub fn gen(ctx: &mut Ctx) -> Vec<String> {
    let mut out = vec![];
    for _ in 0..ctx.budget(150, 1500) { // ranking aggregates: several rows per group, arity = group + output variables
        let (shape, text, ar) = gen_ranking(ctx);
        ctx.count(&format!("shape_rank_{shape}"));
        let edb = gen_ranking_edb(ctx);
        let w = *ctx.pick(&[1usize, 1, 2, 4]);
        out.push(format!("c07.rank 00000:{w}:0 {ar} {} | {}", hex(text.as_bytes()), items_wire(&edb, &[])));
    }
    let n = ctx.budget(1000, 8000);
    for i in 0..n {
        let (shape, rules) = if i % 12 == 0 { ("recursive_minmax", minmax_template(ctx)) } else if i % 12 == 6 { ("recursive_minmax_direct", minmax_direct_template(ctx)) } else { let g = gen_program(ctx); (g.shape, g.rules) };
        ctx.count(&format!("shape_{shape}"));
        let rels = edb_rels_of(&rules); let relrefs: Vec<(&str, usize)> = rels.iter().map(|(r, a)| (r.as_str(), *a)).collect();
        let edb = gen_edb(ctx, &relrefs, 6, 4);
        let items = items_wire(&edb, &rules);
        out.push(format!("c07.run 00000:1:0 | {items}"));
        if ctx.chance(1, 2) { out.push(format!("c07.run 11111:1:0 | {items}")); ctx.count("default_cfg"); }
    }
    out
}

pub fn exec(req: &str) -> String {
    let req = req.to_string();
    // watchdog: a diverging fix-point must not hang the run
    let (tx, rx) = std::sync::mpsc::channel();
    std::thread::spawn(move || {
        if let Some(rest) = req.strip_prefix("c07.rank ") {
            let (head, items) = rest.split_once(" | ").unwrap_or((rest, ""));
            let hp: Vec<&str> = head.split(' ').collect();
            let r = match (hp.len() == 3, hp.first().and_then(|c| cfg_of_wire(c)), hp.get(2).and_then(|h| unhex(h)).and_then(|b| String::from_utf8(b).ok()), parse_items(items)) {
                (true, Some(c), Some(t), Some((e, _))) => run_engine_text(&c, &e, &t), _ => "bad-request".into() };
            let _ = tx.send(r); return;
        }
        let r = match split_req(&req) { Some((_, cfg, edb, rules)) => run_engine(&cfg, &edb, &rules), None => "bad-request".into() };
        let _ = tx.send(r);
    });
    rx.recv_timeout(std::time::Duration::from_secs(10)).unwrap_or_else(|_| "err:timeout".into())
}
pub const TGEN: Option<fn() -> String> = None;
