//! C36 — real `BloomFilter` and `HashIndex` on generated histories.
//!
//! The two base hashes of every key are obtained from the real filter through the cfg accessor
//! `BloomFilter::verif_hash_pair` and written into the request (they are a parameter of the Lean
//! model); `exec` re-reads them from the real filter and refuses the request if they differ.
use crate::common::*;
use inputlayer::bloom_filter::BloomFilter;
use inputlayer::hash_index::{HashIndex, JoinKeySpec};
use inputlayer::{Tuple, Value};

enum Key { T(Tuple), N(i64), S(String) }

fn key_to_wire(k: &Key) -> String {
    match k { Key::T(t) => format!("t={}", tuple_to_wire(t)), Key::N(n) => format!("n={n}"), Key::S(s) => format!("s={}", hex(s.as_bytes())) }
}
fn key_of_wire(s: &str) -> Option<Key> {
    let (k, r) = s.split_once('=')?;
    Some(match k {
        "t" => Key::T(tuple_of_wire(r)?),
        "n" => Key::N(r.parse().ok()?),
        "s" => Key::S(String::from_utf8(unhex(r)?).ok()?),
        _ => return None,
    })
}
fn key_hash(f: &BloomFilter, k: &Key) -> (u64, u64) {
    match k { Key::T(t) => f.verif_hash_pair(t), Key::N(n) => f.verif_hash_pair(n), Key::S(s) => f.verif_hash_pair(s) }
}
fn key_insert(f: &mut BloomFilter, k: &Key) { match k { Key::T(t) => f.insert(t), Key::N(n) => f.insert(n), Key::S(s) => f.insert(s) } }
fn key_query(f: &BloomFilter, k: &Key) -> bool { match k { Key::T(t) => f.might_contain(t), Key::N(n) => f.might_contain(n), Key::S(s) => f.might_contain(s) } }

fn bits_wire(bits: &[u64]) -> String {
    let v: Vec<String> = bits.iter().enumerate().filter(|(_, w)| **w != 0).map(|(i, w)| format!("{}:{:016x}", i, w)).collect();
    if v.is_empty() { "-".into() } else { v.join("/") }
}
fn bloom_tail(f: &BloomFilter) -> String { format!("n={} bits={}", f.len(), bits_wire(f.verif_bits())) }

fn small_value(ctx: &mut Ctx) -> Value {
    match ctx.below(12) {
        0..=5 => Value::Int64(ctx.range(0, 3)),
        6 => Value::Int32(ctx.range(0, 2) as i32),
        7 => Value::string(*ctx.pick(&["a", "b", ""])),
        8 => Value::Null,
        9 => Value::Float64(*ctx.pick(&[0.0, -0.0, 1.5, f64::NAN])),
        10 => Value::Bool(ctx.chance(1, 2)),
        _ => random_value(ctx),
    }
}
fn small_tuple(ctx: &mut Ctx, arity: usize) -> Tuple { Tuple::new((0..arity).map(|_| small_value(ctx)).collect()) }

fn gen_key(ctx: &mut Ctx) -> Key {
    match ctx.below(6) {
        0 => Key::N(ctx.next() as i64),
        1 => Key::N(ctx.range(-2, 2)),
        2 => Key::S((0..ctx.below(4)).map(|_| *ctx.pick(&['a', 'b', 'é'])).collect()),
        _ => { let a = ctx.below(4); Key::T(small_tuple(ctx, a)) }
    }
}

fn gen_bloom(ctx: &mut Ctx) -> String {
    let probe = BloomFilter::with_params(64, 1);
    let ctor = if ctx.chance(3, 5) {
        let nb = match ctx.below(8) { 0 => *ctx.pick(&[0usize, 1, 63, 64, 65, 127, 128, 129]), 1 => 64, 2 => ctx.below(300), 3 => ctx.below(20000), _ => *ctx.pick(&[64usize, 128, 192, 256, 1024, 4096]) };
        let k = match ctx.below(4) { 0 => *ctx.pick(&[0usize, 1, 2, 31, 32, 33, 100, usize::MAX]), _ => ctx.below(12) };
        ctx.count(if nb < 64 { "bloom.wp.bits<64" } else if nb % 64 != 0 { "bloom.wp.bits-unaligned" } else { "bloom.wp.bits-aligned" });
        ctx.count(if k == 0 { "bloom.wp.k=0" } else if k > 32 { "bloom.wp.k>32" } else { "bloom.wp.k-in-range" });
        format!("wp:{nb}:{k}")
    } else {
        let n = match ctx.below(10) { 0 => 0usize, 1 => 1, 2 => 2, 3 => ctx.below(50), 4 => 100000, _ => *ctx.pick(&[5usize, 10, 100, 1000]) };
        let p = match ctx.below(12) {
            0 => *ctx.pick(&[0.0f64, 1.0, -0.5, f64::NAN, 1.5, f64::INFINITY, -0.0]),
            1 => *ctx.pick(&[0.999999f64, 0.9999999999999999, f64::MIN_POSITIVE, 5e-324, 1e-300]),
            2 => 0.5, 3 => 1e-10,
            _ => *ctx.pick(&[0.01f64, 0.001, 0.1, 0.3]),
        };
        let p = if n == 100000 { 0.3 } else { p };   // keep the bit vector small enough for the list model
        ctx.count(if n == 0 || !(p > 0.0 && p < 1.0) { "bloom.new.assert-args" } else { "bloom.new.ok-args" });
        format!("new:{n}:{:016x}", p.to_bits())
    };
    let big = ctx.chance(1, 5); let nkeys = 1 + ctx.below(if big { 40 } else { 8 });
    let keys: Vec<Key> = (0..nkeys).map(|_| gen_key(ctx)).collect();
    let big = ctx.chance(1, 6); let nitems = 1 + ctx.below(if big { 80 } else { 24 });
    let mut inserted: Vec<usize> = vec![];
    let mut items = vec![];
    for _ in 0..nitems {
        let r = ctx.below(100);
        if r < 45 || inserted.is_empty() && r < 80 {
            let i = ctx.below(keys.len()); inserted.push(i);
            let (a, b) = key_hash(&probe, &keys[i]);
            items.push(format!("i {} {} {}", key_to_wire(&keys[i]), a, b)); ctx.count("bloom.op.insert");
        } else if r < 94 {
            let i = if !inserted.is_empty() && ctx.chance(3, 5) { ctx.count("bloom.op.query-inserted"); *ctx.pick(&inserted) } else { ctx.count("bloom.op.query-any"); ctx.below(keys.len()) };
            let (a, b) = key_hash(&probe, &keys[i]);
            items.push(format!("q {} {} {}", key_to_wire(&keys[i]), a, b));
        } else { items.push("c".into()); inserted.clear(); ctx.count("bloom.op.clear"); }
    }
    format!("c36.bloom {} | {}", ctor, items.join(" ; "))
}

const COLS: &[&[usize]] = &[&[0], &[0], &[1], &[0, 1], &[], &[0, 2], &[2, 0], &[5], &[0, 0], &[1, 7]];

fn gen_index(ctx: &mut Ctx) -> String {
    let probe = BloomFilter::with_params(64, 1);
    let cols: Vec<usize> = ctx.pick(COLS).to_vec();
    if cols.iter().any(|c| *c >= 2) { ctx.count("index.cols-may-be-out-of-range"); }
    let expected = *ctx.pick(&[0usize, 1, 10, 100, 101, 1000]);
    let base_arity = 2 + ctx.below(2);
    let hp = |t: &Tuple, cols: &[usize]| probe.verif_hash_pair(&t.from_indices(cols));
    let mk = |ctx: &mut Ctx| { let a = if ctx.chance(1, 10) { ctx.below(4) } else { base_arity }; small_tuple(ctx, a) };
    let mut stored: Vec<Tuple> = vec![];
    let big = ctx.chance(1, 6); let nitems = 1 + ctx.below(if big { 60 } else { 20 });
    let mut items = vec![];
    for _ in 0..nitems {
        let r = ctx.below(100);
        if r < 40 || stored.is_empty() && r < 70 {
            let t = if !stored.is_empty() && ctx.chance(1, 4) { ctx.count("index.op.insert-duplicate"); ctx.pick(&stored).clone() } else { ctx.count("index.op.insert"); mk(ctx) };
            let (a, b) = hp(&t, &cols);
            items.push(format!("ins {} {} {}", tuple_to_wire(&t), a, b)); stored.push(t);
        } else if r < 55 {
            let t = if !stored.is_empty() && ctx.chance(7, 10) { ctx.count("index.op.remove-stored"); let i = ctx.below(stored.len()); stored.remove(i) } else { ctx.count("index.op.remove-any"); mk(ctx) };
            items.push(format!("rem {}", tuple_to_wire(&t)));
        } else if r < 60 {
            let n = ctx.below(8);
            let ts: Vec<Tuple> = (0..n).map(|_| if !stored.is_empty() && ctx.chance(1, 3) { ctx.pick(&stored).clone() } else { mk(ctx) }).collect();
            let mut s = "build".to_string();
            for t in &ts { let (a, b) = hp(t, &cols); s.push_str(&format!(" {} {} {}", tuple_to_wire(t), a, b)); }
            items.push(s); stored = ts; ctx.count("index.op.build");
        } else if r < 95 {
            let k = if !stored.is_empty() && ctx.chance(3, 5) { ctx.count("index.op.lookup-stored-key"); ctx.pick(&stored).from_indices(&cols) } else { ctx.count("index.op.lookup-any-key"); let a = cols.len().min(base_arity); small_tuple(ctx, a) };
            let (a, b) = probe.verif_hash_pair(&k);
            let kw = tuple_to_wire(&k);
            items.push(match ctx.below(4) { 0 => format!("get {kw}"), 1 => format!("getb {kw} {a} {b}"), 2 => format!("probe {kw} {a} {b}"), _ => format!("mc {kw} {a} {b}") });
        } else { items.push("len".into()); ctx.count("index.op.len"); }
    }
    let colw = if cols.is_empty() { "-".to_string() } else { cols.iter().map(|c| c.to_string()).collect::<Vec<_>>().join(",") };
    format!("c36.index {} {} | {}", colw, expected, items.join(" ; "))
}

/// long insert streams: many more inserts than the index was sized for, every stored key looked up
/// right after its insert and again at the end (sizing/rehash/rebuild thresholds live here).
fn gen_index_long(ctx: &mut Ctx) -> String {
    let probe = BloomFilter::with_params(64, 1);
    let cols: Vec<usize> = vec![0];
    let expected = *ctx.pick(&[0usize, 1, 10, 100, 101, 150]);
    let n = 2 * expected.max(100) + 5 + ctx.below(260);
    let hp = |t: &Tuple, cols: &[usize]| probe.verif_hash_pair(&t.from_indices(cols));
    let mut stored: Vec<Tuple> = vec![];
    let mut items = vec![];
    let mut distinct = 0usize;
    for i in 0..n {
        let dup = !stored.is_empty() && ctx.chance(1, 12);
        let t = if dup { ctx.pick(&stored).clone() } else { Tuple::new(vec![Value::Int64(1000 + i as i64), Value::Int64(ctx.range(0, 3))]) };
        let (a, b) = hp(&t, &cols);
        items.push(format!("ins {} {} {}", tuple_to_wire(&t), a, b));
        let k = t.from_indices(&cols); let (ka, kb) = probe.verif_hash_pair(&k); let kw = tuple_to_wire(&k);
        stored.push(t);
        // look the key up straight away: always while the number of distinct keys is within 3 of a multiple of
        // the filter's design load max(expected,100) (where sizing / rebuild thresholds sit), else 1 in 6
        if !dup { distinct += 1; }
        let cap = expected.max(100);
        if distinct % cap >= cap - 3 || distinct % cap <= 3 || ctx.chance(1, 6) {
            ctx.count("index.long-stream.lookup-right-after-insert");
            items.push(match ctx.below(3) { 0 => format!("mc {kw} {ka} {kb}"), 1 => format!("getb {kw} {ka} {kb}"), _ => format!("probe {kw} {ka} {kb}") });
        }
        if ctx.chance(1, 40) && stored.len() > 3 { let j = ctx.below(stored.len()); let r = stored.remove(j); items.push(format!("rem {}", tuple_to_wire(&r))); }
    }
    for (j, t) in stored.iter().enumerate() {
        if j % 7 == 0 || j + 12 >= stored.len() {
            let k = t.from_indices(&cols); let (ka, kb) = probe.verif_hash_pair(&k);
            items.push(format!("getb {} {} {}", tuple_to_wire(&k), ka, kb));
        }
    }
    ctx.count("index.long-stream"); ctx.add("index.long-stream.inserts", n as u64);
    format!("c36.index 0 {} | {}", expected, items.join(" ; "))
}

pub fn gen(ctx: &mut Ctx) -> Vec<String> {
    let mut out = vec![];
    // fixed degenerate shapes first (every with_params corner × a tiny history)
    let probe = BloomFilter::with_params(64, 1);
    for nb in [0usize, 1, 63, 64, 65, 128] { for k in [0usize, 1, 32, 33] {
        let (a, b) = probe.verif_hash_pair(&7i64); let (c, d) = probe.verif_hash_pair(&8i64);
        out.push(format!("c36.bloom wp:{nb}:{k} | q n=7 {a} {b} ; i n=7 {a} {b} ; q n=7 {a} {b} ; q n=8 {c} {d} ; c ; q n=7 {a} {b} ; i n=8 {c} {d} ; q n=8 {c} {d}"));
        ctx.count("bloom.fixed-corner");
    } }
    for _ in 0..ctx.budget(700, 8000) { out.push(gen_bloom(ctx)); }
    for _ in 0..ctx.budget(900, 10000) { out.push(gen_index(ctx)); }
    for _ in 0..ctx.budget(8, 60) { out.push(gen_index_long(ctx)); }
    // malformed stream
    out.push("c36.bloom wp:64 | c".into());
    out.push("c36.bloom wp:64:1 | i n=1 5".into());
    out.push("c36.index 0 x | lenn".into());
    out.push("c36.index 0 10 | get i64:1,".into());
    ctx.add("malformed", 4);
    out
}

fn exec_bloom(rest: &str) -> String {
    let (ctor, items) = match rest.split_once(" | ") { Some((c, i)) => (c, i), None => (rest, "") };
    let parts: Vec<&str> = ctor.split(':').collect();
    let mut f = match parts.as_slice() {
        ["wp", nb, k] => match (nb.parse::<usize>(), k.parse::<usize>()) { (Ok(nb), Ok(k)) => BloomFilter::with_params(nb, k), _ => return "bad-request".into() },
        ["new", n, p] => match (n.parse::<usize>(), u64::from_str_radix(p, 16)) {
            (Ok(n), Ok(p)) => match std::panic::catch_unwind(|| BloomFilter::new(n, f64::from_bits(p))) { Ok(f) => f, Err(_) => return "err:assert".into() },
            _ => return "bad-request".into(),
        },
        _ => return "bad-request".into(),
    };
    let head = format!("m={} k={}", f.num_bits(), f.num_hashes());
    let mut outs = vec![];
    if !items.is_empty() { for it in items.split(" ; ") {
        let tk: Vec<&str> = it.split(' ').collect();
        match tk.as_slice() {
            [op @ ("i" | "q"), k, a, b] => {
                let (key, a, b) = match (key_of_wire(k), a.parse::<u64>(), b.parse::<u64>()) { (Some(k), Ok(a), Ok(b)) => (k, a, b), _ => return "bad-request".into() };
                if key_hash(&f, &key) != (a, b) { return "hash-mismatch".into(); }
                if *op == "i" { key_insert(&mut f, &key); outs.push("-".to_string()); } else { outs.push(if key_query(&f, &key) { "1" } else { "0" }.to_string()); }
            }
            ["c"] => { f.clear(); outs.push("-".into()); }
            _ => return "bad-request".into(),
        }
    } }
    format!("{} | {} | {}", head, outs.join(" "), bloom_tail(&f))
}

fn rows_wire(r: Option<&Vec<Tuple>>) -> String {
    match r { None => "none".into(), Some(v) => format!("[{}]", v.iter().map(tuple_to_wire).collect::<Vec<_>>().join("+")) }
}

fn exec_index(rest: &str) -> String {
    let (hd, items) = match rest.split_once(" | ") { Some((c, i)) => (c, i), None => (rest, "") };
    let h: Vec<&str> = hd.split(' ').collect();
    if h.len() != 2 { return "bad-request".into(); }
    let cols: Vec<usize> = if h[0] == "-" { vec![] } else { match h[0].split(',').map(|c| c.parse::<usize>()).collect::<Result<Vec<_>, _>>() { Ok(c) => c, Err(_) => return "bad-request".into() } };
    let expected: usize = match h[1].parse() { Ok(e) => e, Err(_) => return "bad-request".into() };
    // parse everything first so that a malformed item yields bad-request without side effects
    enum It { Ins(Tuple, u64, u64), Rem(Tuple), Build(Vec<(Tuple, u64, u64)>), Get(Tuple), GetB(Tuple, u64, u64), Mc(Tuple, u64, u64), Probe(Tuple, u64, u64), Len }
    let mut its = vec![];
    if !items.is_empty() { for it in items.split(" ; ") {
        let tk: Vec<&str> = it.split(' ').collect();
        let p3 = |t: &str, a: &str, b: &str| -> Option<(Tuple, u64, u64)> { Some((tuple_of_wire(t)?, a.parse().ok()?, b.parse().ok()?)) };
        let parsed = match tk.as_slice() {
            ["ins", t, a, b] => p3(t, a, b).map(|(t, a, b)| It::Ins(t, a, b)),
            ["rem", t] => tuple_of_wire(t).map(It::Rem),
            ["get", k] => tuple_of_wire(k).map(It::Get),
            ["getb", k, a, b] => p3(k, a, b).map(|(t, a, b)| It::GetB(t, a, b)),
            ["mc", k, a, b] => p3(k, a, b).map(|(t, a, b)| It::Mc(t, a, b)),
            ["probe", k, a, b] => p3(k, a, b).map(|(t, a, b)| It::Probe(t, a, b)),
            ["len"] => Some(It::Len),
            ["build", rest @ ..] if rest.len() % 3 == 0 => rest.chunks(3).map(|c| p3(c[0], c[1], c[2])).collect::<Option<Vec<_>>>().map(It::Build),
            _ => None,
        };
        match parsed { Some(p) => its.push(p), None => return "bad-request".into() }
    } }
    let mut ix = HashIndex::new(JoinKeySpec::new("r", cols.clone()), expected);
    let head = format!("m={} k={}", ix.verif_bloom().num_bits(), ix.verif_bloom().num_hashes());
    let hk = |ix: &HashIndex, key: &Tuple| ix.verif_bloom().verif_hash_pair(key);
    let mut outs: Vec<String> = vec![];
    for it in its {
        match it {
            It::Ins(t, a, b) => { if hk(&ix, &t.from_indices(&cols)) != (a, b) { return "hash-mismatch".into(); } ix.insert(t); outs.push("-".into()); }
            It::Rem(t) => outs.push(if ix.remove(&t) { "1" } else { "0" }.into()),
            It::Build(ts) => { for (t, a, b) in &ts { if hk(&ix, &t.from_indices(&cols)) != (*a, *b) { return "hash-mismatch".into(); } } ix.build_from_tuples(ts.into_iter().map(|x| x.0)); outs.push("-".into()); }
            It::Get(k) => outs.push(rows_wire(ix.get(&k))),
            It::GetB(k, a, b) => { if hk(&ix, &k) != (a, b) { return "hash-mismatch".into(); } outs.push(rows_wire(ix.get_with_bloom(&k))); }
            It::Mc(k, a, b) => { if hk(&ix, &k) != (a, b) { return "hash-mismatch".into(); } outs.push(if ix.might_contain_key(&k) { "1" } else { "0" }.into()); }
            It::Probe(k, a, b) => { if hk(&ix, &k) != (a, b) { return "hash-mismatch".into(); } let v: Vec<Tuple> = ix.probe(&k).cloned().collect(); outs.push(rows_wire(Some(&v))); }
            It::Len => outs.push(ix.len().to_string()),
        }
    }
    let st = ix.stats();
    format!("{} | {} | keys={} tuples={} max={} ver={} {}", head, outs.join(" "), st.num_keys, st.num_tuples, st.max_tuples_per_key, ix.version(), bloom_tail(ix.verif_bloom()))
}

pub fn exec(req: &str) -> String {
    match req.split_once(' ') {
        Some(("c36.bloom", rest)) => exec_bloom(rest),
        Some(("c36.index", rest)) => exec_index(rest),
        _ => "bad-request".into(),
    }
}
pub const TGEN: Option<fn() -> String> = None;
