//! C27 — authorization holds for every multi-statement program.
//! Real code under test: `Handler::execute_program` with `AuthIdentity`s (viewer/editor/admin/none),
//! random per-KG ACLs and sessions; observed: outcome class, message classes, full dump after every call.
//! Requests: `c27.prog <setup> <who> <sess> <kgarg> | <hex line> ; …`, `c27.hist <setup> | who:sess:kg:hexprog ; …`
use crate::common::*;
use crate::u::hgen::*;
use crate::u::hworld::*;

pub fn gen(ctx: &mut Ctx) -> Vec<String> {
    let mut out = vec![];
    // systematic product: session binding x explicit KG argument x first line kind x 1..3 lines
    out.extend(product_cases(ctx, "c27.prog"));
    for _ in 0..ctx.budget(1500, 15000) {
        let su = setup(ctx);
        let who = *ctx.pick(&["vi", "vi", "vi", "vi", "vi", "vi", "ed", "ed", "ed", "ed", "adm", "anon"]);
        let sess = if who != "anon" && ctx.chance(2, 5) { "s" } else { "n" };
        let kg = match ctx.below(10) { 0 | 1 => "-", 2..=5 => "default", 6 | 7 => "kga", 8 => "kgb", _ => "nokg" };
        let (p, shape) = program(ctx, false);
        ctx.count(&format!("shape_{shape}")); ctx.count(&format!("who_{who}")); ctx.count(&format!("sess_{sess}")); ctx.count(&format!("kgarg_{}", if kg == "-" { "none" } else { kg }));
        out.push(format!("c27.prog {su} {who} {sess} {kg} | {}", items_of_prog(&p)));
    }
    for _ in 0..ctx.budget(300, 3000) {
        let su = setup(ctx);
        let n = 2 + ctx.below(3);
        let mut calls = vec![];
        for i in 0..n {
            let who = *ctx.pick(&["vi", "vi", "vi", "ed", "ed", "adm"]);
            let sess = if ctx.chance(1, 2) { "s" } else { "n" };
            let kg = *ctx.pick(&["-", "default", "default", "kga", "kgb"]);
            let (p, _) = if i == 0 && ctx.chance(1, 4) { (format!(".kg acl grant {} {} {}", ctx.pick(&["default", "kga", "kgb"]), ctx.pick(&["vi", "ed"]), ctx.pick(&["viewer", "editor", "owner"])), "grant") }
                         else if ctx.chance(1, 6) { (ctx.pick(&["m1(4)", "sr1(X) <- m1(X)", ".session clear", ".kg use kga", ".kg use kgb"]).to_string(), "session-op") } else { program(ctx, false) };
            calls.push(format!("{who}:{sess}:{kg}:{}", if p.is_empty() { "-".to_string() } else { hex(p.as_bytes()) }));
        }
        ctx.count("hist"); ctx.count(&format!("hist_len_{n}"));
        out.push(format!("c27.hist {su} | {}", calls.join(" ; ")));
    }
    out
}
pub fn exec(req: &str) -> String { exec_world(req) }
pub const TGEN: Option<fn() -> String> = None;
