//! C22 — every answer can be explained: same runs as C21 (`.why` through the real Handler, direct
//! `build_proof_tree` with small depth limits) plus shapes aimed at the depth limit, the cycle cut and
//! the memo table; the Lean side computes the reference derivation depth and demands a complete tree.
use crate::common::*;
use crate::u::prov::*;
use crate::u::provgen;

pub fn gen(ctx: &mut Ctx) -> Vec<String> { provgen::gen_complete(ctx, "c22") }

pub fn exec(req: &str) -> String {
    match req.split(' ').next().unwrap_or("") {
        "c22.why" => exec_why(req),
        "c22.bpt" => exec_bpt(req),
        _ => "bad-request".into(),
    }
}
pub const TGEN: Option<fn() -> String> = None;
