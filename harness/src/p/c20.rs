//! C20 — snapshot reads under concurrent writes: every observation is a prefix state.
//! request: `c20.run inc=<0|1> R=<#rels> [V=<#views>] T=<programs> | t ; t ; …`   (lean/ILV/Drv/EStepIO.lean)
use crate::common::*;
use crate::u::eng::*;

pub fn exec(req: &str) -> String { if req.starts_with("c20.run ") { crate::u::eng::exec(req) } else { "bad-request".into() } }

fn req(inc: bool, nr: usize, progs: &[Vec<Op>], sched: &[usize]) -> String {
    format!("c20.run inc={} R={} T={} | {}", inc as u8, nr, show_progs(progs), sched.iter().map(|t| t.to_string()).collect::<Vec<_>>().join(" ; "))
}
/// with rule operations: `V=<#views>` (every view is queried once more after all threads finished)
fn reqv(nr: usize, nv: usize, progs: &[Vec<Op>], sched: &[usize]) -> String {
    format!("c20.run inc=0 R={} V={} T={} | {}", nr, nv, show_progs(progs), sched.iter().map(|t| t.to_string()).collect::<Vec<_>>().join(" ; "))
}

/// a thread that registers / drops view clauses and queries the views right after each ack
fn rule_prog(ctx: &mut Ctx, nr: usize, nv: usize, nops: usize) -> Vec<Op> {
    let mut p = vec![];
    for _ in 0..nops {
        let v = ctx.below(nv);
        match ctx.below(6) { 0 | 1 | 2 => { p.push(Op::RegRule(v, ctx.below(nr))); p.push(Op::QueryV(v)); } 3 => { p.push(Op::DropRule(v)); p.push(Op::QueryV(v)); } _ => p.push(Op::QueryV(v)) }
    }
    p
}

fn random_prog(ctx: &mut Ctx, nr: usize, nops: usize, with_query: bool) -> Vec<Op> {
    (0..nops).map(|_| {
        let r = ctx.below(nr);
        let k = ctx.below(3);                                    // 0..2 tuples + sometimes a duplicate inside the batch
        let mut v: Vec<i64> = (0..k + 1).map(|_| ctx.range(1, 4)).collect();
        if ctx.chance(1, 8) { v.clear(); }
        match ctx.below(if with_query { 5 } else { 4 }) { 0 | 1 => Op::Insert(r, v), 2 | 3 => Op::Delete(r, v), _ => Op::Query(r) }
    }).collect()
}

pub fn gen(ctx: &mut Ctx) -> Vec<String> {
    let mut out = vec![];
    // (1) all interleavings of small write/write and write/read shapes on one relation
    let shapes: Vec<Vec<Vec<Op>>> = vec![
        vec![vec![Op::Insert(0, vec![1, 2])], vec![Op::Delete(0, vec![1])]],
        vec![vec![Op::Insert(0, vec![1, 2]), Op::Query(0)], vec![Op::Insert(0, vec![2, 3]), Op::Query(0)]],
        vec![vec![Op::Insert(0, vec![1]), Op::Delete(0, vec![1])], vec![Op::Insert(0, vec![1])]],
        vec![vec![Op::Insert(0, vec![1, 1, 2])], vec![Op::Delete(0, vec![2, 2])], vec![Op::Query(0), Op::Query(0)]],
    ];
    for progs in &shapes {
        let counts: Vec<usize> = progs.iter().map(|p| p.iter().map(op_steps).sum()).collect();
        let all = interleavings(&counts, 100000);
        let cap = ctx.budget(400, 5000);
        let stride = (all.len() + cap - 1) / cap;
        for s in all.iter().step_by(stride.max(1)) { out.push(req(false, 1, progs, s)); ctx.count("enumerated"); }
    }
    // (1b) a rule-registering thread racing inserting threads: every interleaving, so the registration lands
    //      at each point between an insert's time assignment / persist / apply+publish; the registering
    //      thread queries its view right after the ack
    let rshapes: Vec<(usize, usize, Vec<Vec<Op>>)> = vec![
        (1, 1, vec![vec![Op::Insert(0, vec![1, 2])], vec![Op::RegRule(0, 0), Op::QueryV(0)]]),
        (1, 1, vec![vec![Op::Insert(0, vec![1]), Op::Insert(0, vec![2])], vec![Op::RegRule(0, 0), Op::QueryV(0), Op::DropRule(0), Op::QueryV(0)]]),
        (2, 1, vec![vec![Op::Insert(0, vec![1])], vec![Op::Insert(1, vec![2])], vec![Op::RegRule(0, 0), Op::RegRule(0, 1), Op::QueryV(0)]]),
        (1, 1, vec![vec![Op::Insert(0, vec![1]), Op::Delete(0, vec![1])], vec![Op::RegRule(0, 0), Op::QueryV(0), Op::RegRule(0, 0)]]),
        (1, 2, vec![vec![Op::Insert(0, vec![3]), Op::QueryV(1)], vec![Op::RegRule(0, 0), Op::DropRule(0)], vec![Op::RegRule(0, 0), Op::RegRule(1, 0), Op::QueryV(0)]]),
    ];
    for (nr, nv, progs) in &rshapes {
        let counts: Vec<usize> = progs.iter().map(|p| p.iter().map(op_steps).sum()).collect();
        let all = interleavings(&counts, 100000);
        let cap = ctx.budget(250, 4000);
        let stride = (all.len() + cap - 1) / cap;
        for s in all.iter().step_by(stride.max(1)) { out.push(reqv(*nr, *nv, progs, s)); ctx.count("enumerated_rule_race"); }
    }
    // (1c) random: 1-2 writer threads + a rule thread, random interleaving
    for _ in 0..ctx.budget(500, 8000) {
        let nr = 1 + ctx.below(2); let nv = 1 + ctx.below(2);
        let nw = 1 + ctx.below(2);
        let mut progs: Vec<Vec<Op>> = (0..nw).map(|_| { let k = 1 + ctx.below(2); random_prog(ctx, nr, k, false) }).collect();
        let k = 1 + ctx.below(3); progs.push(rule_prog(ctx, nr, nv, k));
        let counts: Vec<usize> = progs.iter().map(|p| p.iter().map(op_steps).sum()).collect();
        let mut left = counts.clone(); let mut s = vec![];
        while left.iter().any(|&c| c > 0) { let live: Vec<usize> = (0..left.len()).filter(|&t| left[t] > 0).collect(); let t = *ctx.pick(&live); left[t] -= 1; s.push(t); }
        ctx.count("random_rule_race");
        out.push(reqv(nr, nv, &progs, &s));
    }
    // (2) random programs, 2-3 threads, 1-2 relations, tuple domain {1..4}
    let n = ctx.budget(900, 30000);
    for _ in 0..n {
        let nt = 2 + ctx.below(2);
        let nr = 1 + ctx.below(2);
        let progs: Vec<Vec<Op>> = (0..nt).map(|_| { let k = 1 + ctx.below(2); random_prog(ctx, nr, k, true) }).collect();
        let counts: Vec<usize> = progs.iter().map(|p| p.iter().map(op_steps).sum()).collect();
        let mut left = counts.clone(); let mut s = vec![];
        while left.iter().any(|&c| c > 0) { let live: Vec<usize> = (0..nt).filter(|&t| left[t] > 0).collect(); let t = *ctx.pick(&live); left[t] -= 1; s.push(t); }
        if ctx.chance(1, 5) { let k = ctx.below(s.len() + 1); s.truncate(k); ctx.count("truncated_schedule"); }
        let inc = ctx.chance(1, 6);
        ctx.count(if inc { "incremental_on" } else { "incremental_off" });
        out.push(req(inc, nr, &progs, &s));
    }
    // (3) degenerate
    out.push("c20.run inc=0 R=1 T=i0/d0 | 0 ; 1".into());
    out.push("c20.run inc=0 R=1 T=q0/- | 0 ; 7 ; 1".into());
    out
}
pub const TGEN: Option<fn() -> String> = None;
