//! C16 — rule and schema catalogs are durable and crash-safe.
//! One request = one history of catalog operations on the default knowledge graph, with crashes
//! (`@j[frag]` on an operation, `R`, `T r|s frag`); every crash image is taken from the real code at an
//! `fs_point` label and reopened with the real `StorageEngine::new`.
use crate::common::*;
use crate::u::crashfs::{self, Cb};
use inputlayer::schema::{ColumnSchema, RelationSchema, SchemaType};
use inputlayer::{Config, RuleDef, SerializableRule, StorageEngine};
use std::path::{Path, PathBuf};

const KG: &str = "default";
const PREFIXES: [&str; 2] = ["rulecat.", "schemacat."];

// ---------- pools (mirrored by clauseOf / schemaOf in lean/ILV/Drv/C16.lean) ----------
fn clause_text(name: &str, id: usize) -> String {
    match id {
        0 => format!("{name}(X, Y) <- e(X, Y)"),
        1 => format!("{name}(X, Y) <- e(X, Z), f(Z, Y)"),
        2 => format!("{name}(X, Y) <- f(Y, X)"),
        3 => format!("{name}(X) <- g(X)"),
        4 => format!("{name}(X, Y) <- e(X, Y), !{name}(X, Y)"), // self-negation: rejected
        5 => format!("{name}(X, Y, Z) <- e(X, Y), f(Y, Z)"),
        6 => format!("{name}(X, Y) <- {name}(X, Z), e(Z, Y)"),
        7 => format!("{name}(X, Y) <- g(X)"), // unsafe head variable: rejected
        n => format!("{name}(X, Y) <- h{n}(X, Y)"),
    }
}
fn clause(name: &str, id: usize) -> Option<SerializableRule> {
    inputlayer::parse_rule(&clause_text(name, id)).ok().map(|r| SerializableRule::from_rule(&r))
}
fn clause_id(name: &str, r: &SerializableRule) -> String {
    let d = format!("{r:?}");
    for id in 0..12 { if let Some(c) = clause(name, id) { if format!("{c:?}") == d { return id.to_string(); } } }
    "?".into()
}
fn schema(rel: &str, id: usize) -> RelationSchema {
    let cols: Vec<(&str, SchemaType)> = match id {
        0 => vec![("x", SchemaType::Int), ("y", SchemaType::Int)],
        1 => vec![("x", SchemaType::Int), ("y", SchemaType::String)],
        2 => vec![("x", SchemaType::Int)],
        3 => vec![("x", SchemaType::Int), ("x", SchemaType::Int)], // duplicate column: rejected
        4 => vec![("a", SchemaType::Any), ("b", SchemaType::Float), ("c", SchemaType::Bool)],
        _ => vec![("k", SchemaType::Symbol), ("v", SchemaType::Vector { dim: Some(id) })],
    };
    let mut s = RelationSchema::new(rel);
    for (n, t) in cols { s = s.with_column(ColumnSchema::new(n, t)); }
    s
}
fn schema_id(s: &RelationSchema) -> String {
    for id in 0..8 {
        let p = schema(&s.name, id);
        if format!("{:?}", p.columns) == format!("{:?}", s.columns) { return id.to_string(); }
    }
    "?".into()
}

// ---------- engine plumbing ----------
fn open(dir: &Path) -> Result<StorageEngine, String> {
    let mut c = Config::default();
    c.storage.data_dir = dir.to_path_buf();
    c.storage.performance.num_threads = 1;
    StorageEngine::new(c).map_err(|e| format!("{e}"))
}

fn render(eng: &StorageEngine) -> String {
    eng.with_kg_read(KG, |kg| {
        let rc = kg.rule_catalog();
        let rules: Vec<String> = rc.list().iter().map(|n| {
            let cls: Vec<String> = rc.get(n).map(|d| d.rules.iter().map(|r| clause_id(n, r)).collect()).unwrap_or_default();
            format!("{}:{}", n, cls.join("."))
        }).collect();
        let mut sch: Vec<String> = kg.schema_catalog().persistent_schemas().map(|s| format!("{}:{}", s.name, schema_id(s))).collect();
        sch.sort();
        let mut ses: Vec<String> = kg.schema_catalog().session_schemas().map(|s| format!("{}:{}", s.name, schema_id(s))).collect();
        ses.sort();
        Ok(format!("R({})S({})s({})", rules.join(";"), sch.join(";"), ses.join(";")))
    }).unwrap_or_else(|e| format!("err:render:{e}"))
}

fn ack<T>(r: Result<T, inputlayer::storage::StorageError>, f: impl Fn(T) -> String) -> String {
    match r { Ok(v) => f(v), Err(_) => "err".into() }
}

fn name_of(s: &str) -> &str { if s == "-" { "" } else { s } }

fn run_op(eng: &mut StorageEngine, t: &[&str]) -> Option<String> {
    Some(match t {
        ["rr", n, c] => {
            let n = name_of(n);
            match clause(n, c.parse().ok()?) {
                Some(rule) => ack(eng.register_rule_in(KG, &RuleDef { name: n.to_string(), rule }), |_| "ok".into()),
                None => return None,
            }
        }
        ["rd", n] => ack(eng.drop_rule_in(KG, name_of(n)), |_| "ok".into()),
        ["rP", p] => ack(eng.drop_rules_by_prefix_in(KG, name_of(p)), |v| format!("ok:{}", v.join("+"))),
        ["rc", n] => ack(eng.clear_rule_in(KG, name_of(n)), |_| "ok".into()),
        ["rp", n, i, c] => {
            let n = name_of(n);
            match clause(n, c.parse().ok()?) {
                Some(rule) => ack(eng.replace_rule_in(KG, n, i.parse().ok()?, rule), |_| "ok".into()),
                None => return None,
            }
        }
        ["rx", n, i] => ack(eng.remove_rule_clause_in(KG, name_of(n), i.parse().ok()?), |b| format!("ok:{}", b as u8)),
        ["sr", r, s] => ack(eng.register_schema_in(KG, schema(name_of(r), s.parse().ok()?)), |_| "ok".into()),
        ["su", r, s] => ack(eng.register_or_update_schema_in(KG, schema(name_of(r), s.parse().ok()?)), |_| "ok".into()),
        ["sx", r] => ack(eng.remove_schema_in(KG, name_of(r)), |o| format!("ok:{}", o.is_some() as u8)),
        ["dr", n] => ack(eng.drop_relation_in(KG, name_of(n)), |_| "ok".into()),
        // session (memory-only) schemas: they shadow the persistent ones in `get` / `remove`
        ["ss", r, s] => ack(eng.register_or_update_session_schema_in(KG, schema(name_of(r), s.parse().ok()?)), |_| "ok".into()),
        ["sS", r, s] => { let sc = schema(name_of(r), s.parse().ok()?); ack(eng.with_kg_mut(KG, |kg| kg.register_session_schema(sc)), |_| "ok".into()) }
        ["sc"] => ack(eng.with_kg_mut(KG, |kg| { kg.clear_session_schemas(); Ok(()) }), |_| "ok".into()),
        _ => return None,
    })
}

fn steps(labels: &[String]) -> String {
    if labels.is_empty() { return "-".into(); }
    labels.iter().map(|l| match l.as_str() {
        "rulecat.save.mkdir" => 'm', "schemacat.save.mkdir" => 'M',
        "rulecat.save.tmpwrite" => 't', "schemacat.save.tmpwrite" => 'T',
        "rulecat.save.fsync" => 'f', "schemacat.save.fsync" => 'F',
        "rulecat.save.rename" => 'n', "schemacat.save.rename" => 'N',
        "rulecat.save.dirsync" => 'd', "schemacat.save.dirsync" => 'D',
        // the in-place write of the unrepaired code (kept so that a regression is reported, not hidden)
        "rulecat.save.write" => 'w', "schemacat.save.write" => 'W', _ => '?' }).collect()
}

/// apply a torn-write fragment to `file`: e = empty, l = all but the last byte, p<permille> = strictly inside
fn cut(file: &Path, frag: &str) -> bool {
    let len = match file.metadata() { Ok(m) => m.len(), Err(_) => return false };
    let to = if frag == "e" { 0 } else if frag == "l" { len.saturating_sub(1) }
        else if let Some(p) = frag.strip_prefix('p') { (len * p.parse::<u64>().unwrap_or(500) / 1000).clamp(1, len.saturating_sub(2).max(1)) }
        else { return false };
    crashfs::truncate(file, to)
}
fn cat_file(root: &Path, rules: bool) -> PathBuf { if rules { root.join(KG).join("rules/catalog.json") } else { root.join(KG).join("schema.json") } }
fn tmp_file(root: &Path, rules: bool) -> PathBuf { if rules { root.join(KG).join("rules/catalog.json.tmp") } else { root.join(KG).join("schema.json.tmp") } }

pub fn exec(req: &str) -> String {
    let body = match req.strip_prefix("c16.run") { Some(b) => b.trim(), None => return "bad-request".into() };
    let body = body.strip_prefix('|').unwrap_or(body);
    let mut items: Vec<Vec<&str>> = body.split(';').map(|s| s.split_whitespace().collect::<Vec<_>>()).filter(|v| !v.is_empty()).collect();
    items.push(vec!["R"]);
    let base = match crashfs::scratch() { Ok(d) => d, Err(_) => return "err:tempdir".into() };
    let live = base.path().join("data");
    let img = base.path().join("img");
    let mut eng = match open(&live) { Ok(e) => e, Err(e) => return format!("err:initial-open:{e}") };
    let mut out: Vec<String> = vec![];
    // catalog file written (and never fsynced) since the last reopen
    let (mut wr, mut ws) = (false, false);
    for it in &items {
        let crash_tok = it.last().filter(|l| l.starts_with('@')).copied();
        let reboot: Option<(String, String)>; // (old, new) when this item ends in a crash + reopen
        match (it.as_slice(), crash_tok) {
            (["R"], _) | (["T", _, _], _) => {
                let cur = render(&eng);
                crashfs::snapshot(&live, &img);
                if let ["T", w, f] = it.as_slice() {
                    let rules = match *w { "r" => true, "s" => false, _ => return "bad-request".into() };
                    if !(f == &"e" || f == &"l" || f.starts_with('p')) { return "bad-request".into(); }
                    if (rules && wr) || (!rules && ws) { cut(&cat_file(&img, rules), f); }
                }
                reboot = Some((cur.clone(), cur));
            }
            (_, Some(ct)) => {
                let spec = &ct[1..];
                let digits: String = spec.chars().take_while(|c| c.is_ascii_digit()).collect();
                let j: usize = match digits.parse() { Ok(j) => j, Err(_) => return "bad-request".into() };
                let frag = &spec[digits.len()..];
                if !(frag.is_empty() || frag == "e" || frag == "l" || frag.starts_with('p')) { return "bad-request".into(); }
                let old = render(&eng);
                crashfs::arm(Cb::new(PREFIXES.to_vec(), &live, &img, j));
                let r = run_op(&mut eng, &it[..it.len() - 1]);
                let cb = crashfs::disarm().unwrap();
                if r.is_none() { return "bad-request".into(); }
                let new = render(&eng);
                match cb.hit_label.as_deref() {
                    None => crashfs::snapshot(&live, &img),
                    Some(l) => if !frag.is_empty() {
                        if l.ends_with(".tmpwrite") { cut(&tmp_file(&img, l.starts_with("rulecat.")), frag); }
                        else if l.ends_with(".write") { cut(&cat_file(&img, l.starts_with("rulecat.")), frag); }
                    }
                }
                reboot = Some((old, new));
            }
            (toks, None) => {
                crashfs::arm(Cb::new(PREFIXES.to_vec(), &live, &img, 0));
                let r = run_op(&mut eng, toks);
                let cb = crashfs::disarm().unwrap();
                let a = match r { Some(a) => a, None => return "bad-request".into() };
                wr |= cb.labels.iter().any(|l| l == "rulecat.save.write");
                ws |= cb.labels.iter().any(|l| l == "schemacat.save.write");
                out.push(format!("{}/{}", a, steps(&cb.labels)));
                reboot = None;
            }
        }
        if let Some((old, new)) = reboot {
            drop(eng);
            crashfs::swap_in(&live, &img);
            wr = false; ws = false;
            match open(&live) {
                Ok(e) => { eng = e; out.push(format!("[{}|{}|{}]", old, new, render(&eng))); }
                Err(_) => { out.push(format!("[{}|{}|err:open-failed]", old, new)); crashfs::mark("harness:pre"); return out.join(" "); }
            }
        }
    }
    drop(eng);
    crashfs::mark("harness:pre"); // the scratch directory is removed when `base` drops
    out.join(" ")
}

// ---------- generator ----------
const NAMES: [&str; 3] = ["a", "b", "ab"];
const RELS: [&str; 3] = ["r", "s", "a"];
const FRAGS: [&str; 6] = ["", "e", "l", "p100", "p500", "p900"];

fn rand_op(ctx: &mut Ctx, valid_bias: bool) -> String {
    let n = *ctx.pick(&NAMES);
    let good = [0usize, 1, 2, 6];
    // a quarter of the operations come from the persistent/session schema interplay on few relations
    if ctx.chance(1, 4) {
        let r = *ctx.pick(&["r", "a"]);
        return match ctx.below(8) {
            0 | 1 => { ctx.count("op_session_upd"); format!("ss {} {}", r, ctx.pick(&[0usize, 1, 2])) }
            2 => { ctx.count("op_session_reg"); format!("sS {} {}", r, ctx.pick(&[0usize, 1])) }
            3 | 4 => { ctx.count("op_srem"); format!("sx {r}") }
            5 => { ctx.count("op_supd"); format!("su {} {}", r, ctx.pick(&[0usize, 1, 4])) }
            6 => { ctx.count("op_droprel"); format!("dr {r}") }
            _ => { ctx.count("op_sreg"); format!("sr {} {}", r, ctx.pick(&[0usize, 2])) }
        };
    }
    match ctx.below(if valid_bias { 14 } else { 18 }) {
        0..=3 => { ctx.count("op_reg"); format!("rr {} {}", n, ctx.pick(&good)) }
        4 => { ctx.count("op_reg_other_arity"); format!("rr {} {}", n, ctx.pick(&[3usize, 5])) }
        5 => { ctx.count("op_drop"); format!("rd {n}") }
        6 => { ctx.count("op_clear"); format!("rc {n}") }
        7 => { ctx.count("op_rmclause"); format!("rx {} {}", n, ctx.below(3)) }
        8 => { ctx.count("op_replace"); format!("rp {} {} {}", n, ctx.below(2), ctx.below(8)) }
        9 => { ctx.count("op_dropprefix"); format!("rP {}", ctx.pick(&["a", "b", "ab", "z"])) }
        10 | 11 => { ctx.count("op_sreg"); format!("sr {} {}", ctx.pick(&RELS), ctx.pick(&[0usize, 1, 2, 4])) }
        12 => { ctx.count("op_supd"); format!("su {} {}", ctx.pick(&RELS), ctx.pick(&[0usize, 1, 2, 4])) }
        13 => { match ctx.below(4) {
            0 | 1 => { ctx.count("op_srem"); format!("sx {}", ctx.pick(&RELS)) }
            2 => { ctx.count("op_session_upd"); format!("ss {} {}", ctx.pick(&RELS), ctx.pick(&[0usize, 1, 2, 4, 3])) }
            _ => { if ctx.chance(1, 4) { ctx.count("op_session_clear"); "sc".into() } else { ctx.count("op_session_reg"); format!("sS {} {}", ctx.pick(&RELS), ctx.pick(&[0usize, 1, 2])) } }
        } }
        14 => { ctx.count("op_droprel"); format!("dr {}", ctx.pick(&["a", "r", "s", "b"])) }
        15 => { ctx.count("op_reg_rejected"); format!("rr {} {}", n, ctx.pick(&[4usize, 7])) }
        16 => { ctx.count("op_sreg_rejected"); format!("sr {} 3", ctx.pick(&RELS)) }
        _ => { ctx.count("op_dropprefix_empty"); "rP -".into() }
    }
}

pub fn gen(ctx: &mut Ctx) -> Vec<String> {
    let mut out = vec![];
    // (1) fixed base histories, crash inside every operation at every fs point with every fragment kind
    let bases: Vec<Vec<&str>> = vec![
        vec!["rr a 0"], vec!["rr a 0", "rr a 1"], vec!["rr a 0", "rr b 2", "rd a"], vec!["rr a 0", "rc a", "rr a 3"],
        vec!["rr a 0", "rr a 1", "rx a 0"], vec!["rr a 0", "rx a 0"], vec!["rr a 0", "rp a 0 5"], vec!["rr a 0", "rr ab 1", "rP a"],
        vec!["sr r 0"], vec!["sr r 0", "sr s 1"], vec!["sr r 0", "su r 1"], vec!["sr r 0", "sx r"], vec!["rr a 0", "sr r 0", "rr b 1", "sx r"],
        vec!["su r 0", "ss r 1", "sx r"], vec!["ss r 1", "su r 0", "sx r", "sx r"], vec!["su r 0", "ss r 1", "sx r", "sx r", "ss r 1", "sr r 1"],
        vec!["sr r 0", "sS r 1", "sS r 2", "sx r", "su r 4"], vec!["su r 0", "ss r 1", "dr r", "dr r"], vec!["ss r 1", "sx r", "sr r 0", "ss r 3", "sc", "sx r"],
        vec!["rr a 0", "su a 2", "ss a 0", "dr a", "sx a"], vec!["su r 0", "ss r 1", "R", "sx r"], vec!["su r 0", "ss s 1", "sx s", "sx r"],
        vec!["rr a 0", "sr a 2", "dr a"], vec!["sr r 0", "dr r"], vec!["sr r 0", "dr r", "sr s 1"], vec!["rr a 0", "dr a", "rr a 3"],
    ];
    for b in &bases {
        out.push(format!("c16.run | {}", b.join(" ; ")));
        for i in 0..b.len() {
            for j in 1..=10 { for f in FRAGS {
                if j != 2 && j != 7 && !f.is_empty() { continue; }
                if j > 5 && !b[i].starts_with("dr") { continue; }
                let mut h: Vec<String> = b.iter().map(|s| s.to_string()).collect();
                h[i] = format!("{} @{}{}", h[i], j, f);
                out.push(format!("c16.run | {}", h.join(" ; ")));
                ctx.count("systematic_crash");
            } }
        }
        // torn after the acknowledgement (never fsynced), and plain restarts between operations
        for w in ["r", "s"] { for f in ["e", "l", "p400"] {
            out.push(format!("c16.run | {} ; T {} {}", b.join(" ; "), w, f));
            ctx.count("systematic_late_torn");
        } }
        for i in 1..b.len() {
            let mut h: Vec<String> = b.iter().map(|s| s.to_string()).collect();
            h.insert(i, "R".into());
            out.push(format!("c16.run | {}", h.join(" ; ")));
            ctx.count("systematic_restart");
        }
    }
    // (2) random histories: mostly valid operations, 0-2 crash/restart events anywhere
    let n = ctx.budget(500, 6000);
    for _ in 0..n {
        let len = 1 + ctx.below(8);
        let mut h: Vec<String> = vec![];
        let valid_bias = !ctx.chance(1, 4);
        for _ in 0..len {
            let mut op = rand_op(ctx, valid_bias);
            match ctx.below(10) {
                0 | 1 => { let j = 1 + ctx.below(if op.starts_with("dr") { 11 } else { 6 }); let f = if j == 2 || j == 7 { *ctx.pick(&FRAGS) } else { "" }; op = format!("{op} @{j}{f}"); ctx.count("crash_in_op"); }
                2 => { h.push(op.clone()); op = "R".into(); ctx.count("restart"); }
                3 => { h.push(op.clone()); op = format!("T {} {}", ctx.pick(&["r", "s"]), ctx.pick(&["e", "l", "p250", "p750"])); ctx.count("late_torn"); }
                _ => {}
            }
            h.push(op);
        }
        ctx.add("ops_total", h.len() as u64);
        out.push(format!("c16.run | {}", h.join(" ; ")));
    }
    out
}

pub const TGEN: Option<fn() -> String> = None;
