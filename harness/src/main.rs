//! ilvh — the Rust side of the correspondence check.
//!
//! `ilvh run <Cnn> --tier quick|thorough --seed N --out FILE [--replay FILE]...`
//!     executes the *real* inputlayer code on generated (or replayed) requests and writes
//!     one line per case: `<request>\t<canonical implementation output>`.
//!     Lines starting with `#stat ` carry the input distribution for the evidence file.
//! `ilvh exec <Cnn> < requests`  executes the given request lines only (used for replay/shrinking).
//! `ilvh gen <Cnn>`  prints a regenerated Lean file (T-gen properties).
//!
//! Each property module provides `gen(&mut Ctx) -> Vec<String>` and `exec(&str) -> String`.
#![allow(dead_code)]
mod common;
mod p;
mod u;

use common::Ctx;
use std::io::{BufRead, Write};

/// Per-case watchdog: the real code can take exponential time on rare generated inputs (e.g. the
/// backward chainer on some recursive shapes). Such a case is reported as `slow:>Ns` and skipped by
/// `check` (counted in the evidence), never compared. The worker thread is leaked.
fn exec_guarded(f: fn(&str) -> String, req: &str) -> String {
    let limit = std::env::var("ILVH_CASE_TIMEOUT").ok().and_then(|s| s.parse::<u64>().ok()).unwrap_or(120);
    let (tx, rx) = std::sync::mpsc::channel();
    let req2 = req.to_string();
    std::thread::Builder::new().stack_size(64 << 20).spawn(move || { let _ = tx.send(exec_inner(f, &req2)); }).ok();
    match rx.recv_timeout(std::time::Duration::from_secs(limit)) {
        Ok(s) => s,
        Err(_) => format!("slow:>{}s", limit),
    }
}

fn exec_inner(f: fn(&str) -> String, req: &str) -> String {
    let r = std::panic::catch_unwind(|| f(req));
    match r {
        Ok(s) => s.replace(['\t', '\n', '\r'], " "),
        Err(e) => {
            let msg = if let Some(s) = e.downcast_ref::<&str>() { s.to_string() }
                else if let Some(s) = e.downcast_ref::<String>() { s.clone() } else { "?".into() };
            format!("panic:{}", msg.replace(['\t', '\n', '\r'], " "))
        }
    }
}

fn main() {
    let args: Vec<String> = std::env::args().collect();
    if args.len() < 3 { eprintln!("usage: ilvh run|exec|gen <Cnn> ..."); std::process::exit(2); }
    let cmd = args[1].as_str();
    let prop = args[2].to_uppercase();
    let m = match p::lookup(&prop) { Some(m) => m, None => { eprintln!("unknown property {prop}"); std::process::exit(2); } };
    // keep panics of the code under test off stdout; they are reported as `panic:` outputs
    std::panic::set_hook(Box::new(|_| {}));
    match cmd {
        "gen" => { match m.tgen { Some(g) => print!("{}", g()), None => {} } }
        "exec" => {
            let stdin = std::io::stdin();
            let out = std::io::stdout(); let mut out = out.lock();
            for line in stdin.lock().lines() {
                let line = line.unwrap(); if line.is_empty() { continue; }
                let req = line.split('\t').next().unwrap().to_string();
                writeln!(out, "{}\t{}", req, exec_guarded(m.exec, &req)).unwrap();
            }
        }
        "run" => {
            let mut tier = "quick".to_string(); let mut seed = 1u64; let mut outp = None; let mut replays = vec![];
            let mut i = 3;
            while i < args.len() {
                match args[i].as_str() {
                    "--tier" => { tier = args[i+1].clone(); i += 2; }
                    "--seed" => { seed = args[i+1].parse().unwrap_or(1); i += 2; }
                    "--out" => { outp = Some(args[i+1].clone()); i += 2; }
                    "--replay" => { replays.push(args[i+1].clone()); i += 2; }
                    _ => { i += 1; }
                }
            }
            let mut ctx = Ctx::new(seed, tier == "thorough");
            let mut reqs: Vec<String> = vec![];
            for r in &replays {
                if let Ok(s) = std::fs::read_to_string(r) {
                    for l in s.lines() { let l = l.split('\t').next().unwrap(); if !l.is_empty() && !l.starts_with('#') { reqs.push(l.to_string()); } }
                }
            }
            let n_replayed = reqs.len();
            reqs.extend((m.gen)(&mut ctx));
            let mut w: Box<dyn Write> = match outp { Some(p) => Box::new(std::io::BufWriter::new(std::fs::File::create(p).unwrap())), None => Box::new(std::io::stdout()) };
            for req in &reqs { writeln!(w, "{}\t{}", req, exec_guarded(m.exec, req)).unwrap(); }
            writeln!(w, "#stat replayed {}", n_replayed).unwrap();
            writeln!(w, "#stat generated {}", reqs.len() - n_replayed).unwrap();
            let mut keys: Vec<_> = ctx.stats.iter().collect(); keys.sort();
            for (k, v) in keys { writeln!(w, "#stat {} {}", k, v).unwrap(); }
            w.flush().unwrap();
        }
        _ => { eprintln!("unknown command {cmd}"); std::process::exit(2); }
    }
}
