//! Shared harness plumbing: the single PRNG, statistics, the wire codec for values.
use inputlayer::{Tuple, Value};
use std::collections::BTreeMap;
use std::sync::Arc;

pub struct Ctx {
    s: u64,
    pub thorough: bool,
    pub stats: BTreeMap<String, u64>,
}

impl Ctx {
    pub fn new(seed: u64, thorough: bool) -> Self {
        let mut s = seed.wrapping_mul(0x9E3779B97F4A7C15) ^ 0xD1B54A32D192ED03; if s == 0 { s = 1; }
        let mut c = Ctx { s, thorough, stats: BTreeMap::new() }; for _ in 0..8 { c.next(); } c
    }
    /// xorshift64* — the only source of randomness in the harness.
    pub fn next(&mut self) -> u64 {
        let mut x = self.s; x ^= x >> 12; x ^= x << 25; x ^= x >> 27; self.s = x;
        x.wrapping_mul(0x2545F4914F6CDD1D)
    }
    pub fn below(&mut self, n: usize) -> usize { if n == 0 { 0 } else { (self.next() % n as u64) as usize } }
    pub fn range(&mut self, lo: i64, hi: i64) -> i64 { lo + (self.next() % ((hi - lo + 1) as u64)) as i64 }
    pub fn chance(&mut self, num: u64, den: u64) -> bool { self.next() % den < num }
    pub fn pick<'a, T>(&mut self, v: &'a [T]) -> &'a T { let i = self.below(v.len()); &v[i] }
    pub fn count(&mut self, k: &str) { *self.stats.entry(k.to_string()).or_insert(0) += 1; }
    pub fn add(&mut self, k: &str, n: u64) { *self.stats.entry(k.to_string()).or_insert(0) += n; }
    /// quick/thorough budget
    pub fn budget(&self, quick: usize, thorough: usize) -> usize { if self.thorough { thorough } else { quick } }
}

pub fn hex(bytes: &[u8]) -> String { bytes.iter().map(|b| format!("{:02x}", b)).collect() }
pub fn unhex(s: &str) -> Option<Vec<u8>> {
    if s.len() % 2 != 0 { return None; }
    (0..s.len()).step_by(2).map(|i| u8::from_str_radix(&s[i..i + 2], 16).ok()).collect()
}

pub fn val_to_wire(v: &Value) -> String {
    match v {
        Value::Int32(n) => format!("i32:{n}"),
        Value::Int64(n) => format!("i64:{n}"),
        Value::Float64(f) => format!("f64:{:016x}", f.to_bits()),
        Value::String(s) => format!("s:{}", hex(s.as_bytes())),
        Value::Bool(b) => format!("b:{}", if *b { 1 } else { 0 }),
        Value::Null => "null".into(),
        Value::Vector(v) => format!("v:{}", v.iter().map(|f| format!("{:08x}", f.to_bits())).collect::<Vec<_>>().join("/")),
        Value::VectorInt8(v) => format!("v8:{}", v.iter().map(|i| i.to_string()).collect::<Vec<_>>().join("/")),
        Value::Timestamp(t) => format!("ts:{t}"),
    }
}

pub fn val_of_wire(s: &str) -> Option<Value> {
    if s == "null" { return Some(Value::Null); }
    let (k, r) = s.split_once(':')?;
    Some(match k {
        "i32" => Value::Int32(r.parse().ok()?),
        "i64" => Value::Int64(r.parse().ok()?),
        "ts" => Value::Timestamp(r.parse().ok()?),
        "f64" => Value::Float64(f64::from_bits(u64::from_str_radix(r, 16).ok()?)),
        "s" => Value::String(Arc::from(String::from_utf8(unhex(r)?).ok()?.as_str())),
        "b" => Value::Bool(r == "1"),
        "v" => Value::Vector(Arc::new(if r.is_empty() { vec![] } else { r.split('/').map(|x| u32::from_str_radix(x, 16).map(f32::from_bits)).collect::<Result<Vec<_>, _>>().ok()? })),
        "v8" => Value::VectorInt8(Arc::new(if r.is_empty() { vec![] } else { r.split('/').map(|x| x.parse::<i8>()).collect::<Result<Vec<_>, _>>().ok()? })),
        _ => return None,
    })
}

pub fn tuple_to_wire(t: &Tuple) -> String {
    if t.values().is_empty() { "()".into() } else { t.values().iter().map(val_to_wire).collect::<Vec<_>>().join(",") }
}
pub fn tuple_of_wire(s: &str) -> Option<Tuple> {
    if s == "()" { return Some(Tuple::new(vec![])); }
    Some(Tuple::new(s.split(',').map(val_of_wire).collect::<Option<Vec<_>>>()?))
}
/// sorted, canonical rendering of a relation: tuples joined by `;` after sorting the wire strings
/// (the wire form is injective, so this order is independent of `Value::cmp`).
pub fn rel_to_wire(ts: &[Tuple]) -> String {
    let mut v: Vec<String> = ts.iter().map(tuple_to_wire).collect(); v.sort();
    if v.is_empty() { "{}".into() } else { v.join(";") }
}

pub fn ord_to_wire(o: std::cmp::Ordering) -> &'static str {
    match o { std::cmp::Ordering::Less => "lt", std::cmp::Ordering::Equal => "eq", std::cmp::Ordering::Greater => "gt" }
}

/// A pool of representative values of every kind, including the awkward ones.
pub fn value_pool() -> Vec<Value> {
    let f = |x: f64| Value::Float64(x);
    let v = |x: &[f32]| Value::Vector(Arc::new(x.to_vec()));
    let v8 = |x: &[i8]| Value::VectorInt8(Arc::new(x.to_vec()));
    vec![
        Value::Null, Value::Bool(false), Value::Bool(true),
        Value::Int32(i32::MIN), Value::Int32(-1), Value::Int32(0), Value::Int32(1), Value::Int32(i32::MAX),
        Value::Int64(i64::MIN), Value::Int64(-1), Value::Int64(0), Value::Int64(1), Value::Int64(1 << 53), Value::Int64((1 << 53) + 1), Value::Int64(i64::MAX),
        f(0.0), f(-0.0), f(1.0), f(-1.0), f(2.0), f(0.5), f(f64::MIN_POSITIVE / 2.0), f(-f64::MIN_POSITIVE / 2.0), f(9007199254740992.0),
        f(f64::INFINITY), f(f64::NEG_INFINITY), f(f64::NAN), f(f64::from_bits(0xfff8000000000001)), f(f64::from_bits(0x7ff0000000000001)), f(f64::MAX), f(f64::MIN),
        Value::Timestamp(i64::MIN), Value::Timestamp(-1), Value::Timestamp(0), Value::Timestamp(1), Value::Timestamp(i64::MAX),
        Value::string(""), Value::string("a"), Value::string("ab"), Value::string("b"), Value::string("A"), Value::string("é"), Value::string("\u{10000}"), Value::string("a\u{0}"),
        v(&[]), v(&[0.0]), v(&[-0.0]), v(&[1.0]), v(&[f32::NAN]), v(&[-1.0]), v(&[0.0, 1.0]), v(&[1.0, 0.0]), v(&[2.0]), v(&[f32::INFINITY]),
        v8(&[]), v8(&[0]), v8(&[-1]), v8(&[1]), v8(&[-128]), v8(&[127]), v8(&[0, 0]), v8(&[1, -1]),
    ]
}

pub fn random_value(ctx: &mut Ctx) -> Value {
    let pool = value_pool();
    match ctx.below(10) {
        0..=4 => pool[ctx.below(pool.len())].clone(),
        5 => Value::Int64(ctx.range(-3, 3)),
        6 => Value::Float64(f64::from_bits(ctx.next())),
        7 => Value::Float64(ctx.range(-3, 3) as f64 / 2.0),
        8 => { let n = ctx.below(3); Value::Vector(Arc::new((0..n).map(|_| if ctx.chance(1, 3) { f32::from_bits(ctx.next() as u32) } else { ctx.range(-2, 2) as f32 }).collect())) }
        _ => { let n = ctx.below(3); let s: String = (0..n).map(|_| *ctx.pick(&['a', 'b', 'z', 'é'])).collect(); Value::string(&s) }
    }
}
