#!/usr/bin/env python3
"""
Hook-completeness audit (DESIGN §5 C13 "Tie"): run request lines through `ilvh exec <Cnn>` under strace with
ILV_FS_MARK=1 and verify that every mutating system call on a path below the scratch data directory happens
inside an fs_point bracket (between `<label>:pre` and `<label>:post` of the same thread), or inside a
`harness:pre/post` bracket (the harness's own copies/cuts).  Prints the syscalls per label and every violation.
usage: fs_audit.py <Cnn> <requests-file>
"""
import sys, re, subprocess, os, tempfile, collections
prop, reqs = sys.argv[1], sys.argv[2]
root = os.path.dirname(os.path.abspath(__file__))
log = tempfile.mktemp(prefix="ilv-strace-")
env = dict(os.environ, ILV_FS_MARK="1")
trace = "openat,creat,write,pwrite64,writev,renameat,renameat2,rename,unlinkat,unlink,rmdir,fsync,fdatasync,ftruncate,truncate,mkdirat,mkdir,newfstatat,statx,stat,close"
subprocess.run(["strace", "-f", "-y", "-o", log, "-e", "trace=" + trace, os.path.join(root, "target/debug/ilvh"), "exec", prop],
               stdin=open(reqs), stdout=subprocess.DEVNULL, stderr=subprocess.DEVNULL, env=env)
cur = {}                      # pid -> current marker
per_label = collections.defaultdict(collections.Counter)
viol = []
data = re.compile(r"/(?:dev/shm|tmp)/\.tmp[^/\"<>]*/(?:data|img)")
n_mut = 0
for line in open(log, errors="replace"):
    m = re.match(r"(\d+)\s+(\w+)\((.*)", line)
    if not m: continue
    pid, sc, rest = m.group(1), m.group(2), m.group(3)
    mk = re.search(r'"/ilv-mark/([^"]+)"', rest)
    if mk:
        cur[pid] = mk.group(1); continue
    if not data.search(rest): continue
    if " = -1 " in rest and "EEXIST" not in rest: continue          # failed call: no mutation
    mut = False
    if sc in ("openat", "creat"):
        mut = bool(re.search(r"O_CREAT|O_TRUNC", rest)) and "O_DIRECTORY" not in rest
        kind = "create/trunc"
    elif sc in ("write", "pwrite64", "writev"): mut, kind = True, "write"
    elif sc in ("renameat", "renameat2", "rename"): mut, kind = True, "rename"
    elif sc in ("unlinkat", "unlink", "rmdir"): mut, kind = True, "unlink"
    elif sc in ("fsync", "fdatasync"): mut, kind = True, "fsync"
    elif sc in ("ftruncate", "truncate"): mut, kind = True, "truncate"
    elif sc in ("mkdirat", "mkdir"): mut, kind = (" = 0" in rest), "mkdir"
    if not mut: continue
    n_mut += 1
    lab = cur.get(pid, "<none>")
    if lab.endswith(":pre"):
        per_label[lab[:-4]][kind] += 1
    else:
        viol.append((lab, line.strip()[:200]))
for lab in sorted(per_label):
    print("%-34s %s" % (lab, dict(per_label[lab])))
print("mutating syscalls on the data directory: %d, outside any bracket: %d" % (n_mut, len(viol)))
for lab, l in viol[:40]:
    print("  OUTSIDE (last marker %s): %s" % (lab, l))
os.unlink(log)
sys.exit(1 if viol else 0)
