#!/bin/bash
# tools/run_all.sh [tier] : run every claimed check sequentially, summarise
cd /verif
TIER=${1:-quick}
for f in props/C*.json; do
  P=$(basename $f .json)
  S=$(date +%s)
  OUT=$(./check $P --tier $TIER 2>&1); RC=$?
  E=$(( $(date +%s) - S ))
  echo "== $P rc=$RC ${E}s known=$(echo "$OUT" | grep -c KNOWN-FINDING) viol=$(echo "$OUT" | grep -c VIOLATION)"
  echo "$OUT" | grep -E "VIOLATION|Traceback|Error" | head -5 | cut -c1-400
done
