#!/bin/bash
# tools/mv_suite_batch.sh <id>... : greedily applies the seeded patches to /tmp/mv (at /repo HEAD), runs the
# pinned suite once per batch of mutually applicable patches, prints per batch the result.
export CARGO_NET_OFFLINE=true CARGO_PROFILE_TEST_DEBUG=0 CARGO_PROFILE_DEV_DEBUG=0
cd /tmp/mv || exit 2
REST="$@"; B=0
while [ -n "$REST" ]; do
  B=$((B+1)); git checkout -q -- . ; rm -f tests/mutation_demo_*.rs; git checkout -q --detach "$(git -C /repo rev-parse HEAD)"
  IN=""; NEXT=""
  for m in $REST; do
    P=/verif/seeded/$m/patch.diff; [ -f $P ] || P=/tmp/seedcand/$m/patch.diff
    if git apply "$P" 2>/dev/null; then IN="$IN $m"; else NEXT="$NEXT $m"; fi
  done
  /verif/tools/baseline.sh /tmp/mv > /tmp/mv_suite_b$B.log 2>&1
  echo "batch $B [$IN ] rc=$? $(grep -E 'Summary' /tmp/mv_suite_b$B.log | tail -1)"
  # re-run failed tests on their own (load-sensitive timing tests fail when the box is saturated)
  for t in $(grep -E "^\s+(FAIL|TIMEOUT|SIGABRT)" /tmp/mv_suite_b$B.log | sed -E 's/.*\) +[^ ]+ +//' | sort -u); do
    ok=0; for i in 1 2 3; do if cargo nextest run --offline --tool-config-file pb:/w/lib/nextest.toml --profile pb -E "test(=$t)" > /tmp/mv_rerun.log 2>&1; then ok=1; break; fi; done
    echo "   rerun $t -> $([ $ok = 1 ] && echo pass || echo STILL-FAILS)"
  done
  if [ "$NEXT" = "$REST" ]; then echo "cannot apply: $NEXT"; break; fi
  REST="$NEXT"
done
git checkout -q -- .
