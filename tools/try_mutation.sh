#!/bin/bash
# tools/try_mutation.sh <seeded-dir> <Cnn> [<Cnn>...]
# Applies <seeded-dir>/patch.diff to /repo, runs the quick checks of the given properties,
# reverts /repo. Prints per check: exit code and VIOLATION lines. Never leaves /repo modified.
D=$1; shift
cd /verif || exit 2
if [ -n "$(git -C /repo status --porcelain --untracked-files=no)" ]; then echo "/repo not clean"; exit 2; fi
git -C /repo apply "$D/patch.diff" || { echo "patch does not apply"; exit 2; }
trap 'git -C /repo checkout -- . ; git -C /repo clean -fdq -- src tests 2>/dev/null' EXIT
for P in "$@"; do
  OUT=$(./check "$P" --tier quick 2>&1); RC=$?
  echo "== $P rc=$RC"; echo "$OUT" | grep -E "VIOLATION|KNOWN-FINDING" | cut -c1-300
done
