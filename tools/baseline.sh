#!/bin/bash
# Runs the repository's pinned test suite with the verification guard OFF (no RUSTFLAGS cfg),
# the way /root/.vp/BASELINE.json does. Usage: tools/baseline.sh [repo-dir]
REPO=${1:-/repo}
cd "$REPO" || exit 2
unset RUSTFLAGS
if command -v cargo-nextest >/dev/null && [ -f /w/lib/nextest.toml ]; then
  CARGO_NET_OFFLINE=true cargo nextest run --workspace --no-fail-fast --tool-config-file pb:/w/lib/nextest.toml --profile pb --test-threads 8 --offline
else
  CARGO_NET_OFFLINE=true cargo test --workspace --no-fail-fast --offline
fi
