#!/bin/bash
# tools/mkmut.sh <id> : scratch worktree of /repo HEAD for a mutation agent
set -e
mkdir -p /tmp/mw
git -C /repo worktree add -q --detach /tmp/mw/$1 HEAD
echo /tmp/mw/$1
