#!/bin/bash
# tools/mkworktree.sh <name> : private worktree of /verif for a builder agent, with warm build dirs
set -e
N=$1; D=/tmp/vw/$N
mkdir -p /tmp/vw
git -C /verif worktree add -q -b "$N" "$D" HEAD
mkdir -p "$D/harness" "$D/lean"
cp -a /verif/harness/target "$D/harness/target"
cp -a /verif/lean/.lake "$D/lean/.lake"
echo "$D"
