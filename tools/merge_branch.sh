#!/bin/bash
# tools/merge_branch.sh <branch> : merge a builder branch into main in /verif; generated registries
# and evidence are never taken from the branch — they are regenerated here.
set -e
B=$1
cd /verif
GEN="MANIFEST.json lean/ILV/Drv/All.lean lean/ILV.lean harness/src/p/mod.rs harness/src/u/mod.rs"
git merge --no-commit --no-ff "$B" >/tmp/merge.log 2>&1 || true
if ! git rev-parse -q --verify MERGE_HEAD >/dev/null; then echo "nothing to merge or merge failed early"; cat /tmp/merge.log | tail -3; fi
for f in $GEN; do git checkout --ours -- "$f" 2>/dev/null || git rm -q --cached "$f" 2>/dev/null || true; done
for f in $(git diff --name-only --diff-filter=U -- evidence); do git checkout --ours -- "$f"; git add "$f"; done
# evidence: keep ours where it exists, drop branch evidence (it is rewritten by ./check here)
for f in $(git diff --name-only --cached -- evidence 2>/dev/null); do git checkout --ours -- "$f" 2>/dev/null || { git rm -q --cached "$f"; rm -f "$f"; }; done
python3 tools/regen.py
git add -A $GEN 2>/dev/null || true
if git diff --name-only --diff-filter=U | grep -q .; then echo "UNRESOLVED:"; git diff --name-only --diff-filter=U; exit 1; fi
git commit -q -m "merge $B" && echo "merged $B"
