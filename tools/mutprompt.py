#!/usr/bin/env python3
"""prints the prompt for a mutation agent: tools/mutprompt.py <Cnn> <worktree> [extra hint]"""
import sys, json
pid, wt = sys.argv[1], sys.argv[2]
extra = sys.argv[3] if len(sys.argv) > 3 else ""
p = next(json.loads(l) for l in open('/verif/properties.jsonl') if json.loads(l)['id'] == pid)
print(f"""You are testing how well a verification effort detects regressions in the Rust project `inputlayer` (a Datalog-style incremental rules engine). You get ONE semantic property of the system and a private scratch git worktree of the repository at {wt} (detached HEAD of the current code). Work ONLY inside {wt}; do not read or touch /verif, /repo or other directories under /tmp/mw or /tmp/vw.

Property {pid} — {p['title']}:
"{p['statement']}"
(Quantifier: {p['quantifier']['text']})
Files where the mechanism lives: {', '.join(p['anchors']['files'])}.

Your task: write a small, realistic change to the Rust source (the kind of mistake a competent developer could make in a refactor, optimisation or feature tweak — not sabotage-looking, not a syntax trick) that BREAKS this property while the crate still compiles and the existing test suite still passes. The breakage must need something specific to manifest — a particular multi-step sequence of operations, an unusual input (boundary value, special float, odd name, rare statement kind), a particular interleaving or crash point, or two cooperating sites that each look fine alone — NOT something ordinary use would expose at once. {extra}

Deliver in {wt}/mutation/ :
  * patch.diff — `git diff` of your change against HEAD (source files under src/ only; must apply with `git apply` to a clean checkout; do NOT include the demo in it);
  * a demonstration: a Rust integration test file (put it at {wt}/tests/mutation_demo_{pid.lower()}.rs and copy it to mutation/demo.rs) or a small example program, that PASSES on the unchanged code and FAILS with your change (show both runs);
  * README.md — what the change is, why it breaks the property, exactly what is needed for it to manifest, the commands you ran and their results.
Constraints on how you work (the machine is shared and disk is limited): set `export CARGO_NET_OFFLINE=true CARGO_PROFILE_DEV_DEBUG=0 CARGO_PROFILE_TEST_DEBUG=0 CARGO_INCREMENTAL=0` and always pass `--offline`; there is no network. Do NOT build or run the whole test suite (it is ~35 GB of build output): run `cargo test --offline --lib <filter>` for the unit tests of the modules you touched and the one or two most relevant integration tests under tests/ (e.g. `cargo test --offline --test <name>`), plus your demo (`cargo test --offline --test mutation_demo_{pid.lower()}`). The lead will run the full suite. First build takes ~10 minutes. Before finishing, `git stash`-free procedure to prove the demo passes without the change: `git apply -R mutation/patch.diff`, run the demo, `git apply mutation/patch.diff`, run it again. Leave the worktree with the patch applied and the demo in place. Do not use `#[cfg(test)]`-only tricks or anything keyed on test names/env vars; the change must be in normal code paths. Avoid changes that merely make the code panic or refuse to work in common cases. Your final reply: one paragraph describing the change, what it needs to manifest, and the test commands + results.""")
