#!/bin/bash
# tools/mv_validate.sh <mutation-dir> <Cnn> [<Cnn>...]
# Validates a seeded mutation in the isolated worktrees /tmp/mv (repo) and /tmp/vcheck (verif, harness
# pointed at /tmp/mv): demo fails with patch / passes without, pinned suite passes with patch,
# then runs the given checks against the patched tree. Output: a summary on stdout.
M=$1; shift
export CARGO_NET_OFFLINE=true CARGO_PROFILE_TEST_DEBUG=0 CARGO_PROFILE_DEV_DEBUG=0
cd /tmp/mv || exit 2
git checkout -q -- . ; rm -f tests/mutation_demo_*.rs
git checkout -q --detach "${MV_BASE:-$(git -C /repo rev-parse HEAD)}"
git apply "$M/patch.diff" || { echo "RESULT patch-does-not-apply"; exit 2; }
DEMO=$(ls "$M"/demo*.rs 2>/dev/null | head -1)
NAME=mutation_demo_x
if [ -n "$DEMO" ]; then cp "$DEMO" tests/$NAME.rs; cargo test --offline --test $NAME > /tmp/mv_demo_with.log 2>&1; echo "demo-with-patch rc=$? ($(grep -E '^test result' /tmp/mv_demo_with.log | head -1))"; rm -f tests/$NAME.rs; fi
if [ -z "$NO_SUITE" ]; then /verif/tools/baseline.sh /tmp/mv > /tmp/mv_suite.log 2>&1; echo "suite-with-patch rc=$? $(grep -E 'Summary|tests run' /tmp/mv_suite.log | tail -1)"; grep -E "^\s+(FAIL|TIMEOUT|SIGABRT)" /tmp/mv_suite.log | sort -u | head; fi
cd /tmp/vcheck
for P in "$@"; do
  OUT=$(./check "$P" --tier quick 2>&1); RC=$?
  echo "== check $P rc=$RC"; echo "$OUT" | grep -E "VIOLATION|KNOWN-FINDING" | cut -c1-260
  for r in $(echo "$OUT" | grep -o 'replay=[^ ]*' | cut -d= -f2 | head -2); do python3 -c "
import json,sys; d=json.load(open('$r')); print('   replay:', json.dumps({k:d[k] for k in d if k in ('request','impl_output','spec_class','spec_detail','no_longer_checks')})[:600])"; done
done
cd /tmp/mv
git checkout -q -- .
if [ -n "$DEMO" ]; then cp "$DEMO" tests/$NAME.rs; cargo test --offline --test $NAME > /tmp/mv_demo_without.log 2>&1; echo "demo-without-patch rc=$? ($(grep -E '^test result' /tmp/mv_demo_without.log | head -1))"; rm -f tests/$NAME.rs; fi
